#!/bin/bash
# Runs every check's quick (or thorough) command in sequence; prints exit codes and wall time.
tier=${1:-quick}
cd /verif
fail=0
for i in $(seq -w 1 20); do
  id=C$i
  s=$(date +%s.%N)
  ./check $id $tier > /tmp/run_all_$id.log 2>&1
  rc=$?
  e=$(date +%s.%N)
  v=$(grep -c "^VIOLATION" /tmp/run_all_$id.log)
  k=$(grep -c "^KNOWN-FINDING" /tmp/run_all_$id.log)
  printf "%s rc=%d wall=%.1fs violations=%d known=%d %s\n" $id $rc $(echo "$e - $s" | bc) $v $k "$(grep -E "^INCONCLUSIVE" /tmp/run_all_$id.log | head -2 | tr '\n' ' ')"
  [ $rc -ne 0 ] && fail=1
done
python3-vt - <<'PY'
import json,jsonschema,glob
s=json.load(open('/root/.vp/EVIDENCE.schema.json'))
for f in sorted(glob.glob('/verif/evidence/C*.json')):
    try:
        jsonschema.validate(json.load(open(f)), s)
    except Exception as e:
        print('EVIDENCE INVALID', f, str(e)[:200])
print('evidence files validated:', len(glob.glob('/verif/evidence/C*.json')))
PY
exit $fail
