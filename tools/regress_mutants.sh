#!/bin/bash
# usage: tools/regress_mutants.sh [pattern]
# Applies every seeded change (seeded/<id>/patch.diff, optionally only ids matching the pattern) to
# /repo in turn, runs the quick check of the property it breaks, undoes it, and prints one line per
# change: CAUGHT (exit 1 with a VIOLATION line), MISSED (exit 0) or INCONCLUSIVE (anything else).
cd /verif || exit 2
if ! git -C /repo diff --quiet; then echo "/repo has uncommitted changes"; exit 2; fi
missed=0; total=0
for d in seeded/*${1}*/; do
  id=$(basename "$d")
  prop=$(python3 -c "import json;m=json.load(open('$d/meta.json'));print(m.get('regress_check',m['property']))" 2>/dev/null)
  own=$(python3 -c "import json;print(json.load(open('$d/meta.json'))['property'])" 2>/dev/null)
  [ -z "$prop" ] && continue
  git -C /repo apply "/verif/$d/patch.diff" || { echo "$id: patch does not apply"; continue; }
  out=$(VERIF_SEED=${VERIF_SEED:-1} ./check "$prop" quick --evidence /verif/tmp/mutant_ev.json 2>&1); rc=$?
  git -C /repo checkout -- . ; git -C /repo clean -fdq -- src tests examples 2>/dev/null
  total=$((total+1))
  if [ $rc -eq 1 ] && echo "$out" | grep -q "^VIOLATION property=$prop"; then
    [ "$prop" != "$own" ] && echo -n "(not by its own property's check $own, see meta.json) "
    echo "CAUGHT  $id by $prop: $(echo "$out" | grep -m1 'violation:' | cut -c1-140)"
  elif [ $rc -eq 0 ]; then
    echo "MISSED  $id ($prop exit 0)"; missed=$((missed+1))
  else
    echo "INCONCLUSIVE $id ($prop exit $rc): $(echo "$out" | grep -m1 -E '^INCONCLUSIVE' | cut -c1-160)"; missed=$((missed+1))
  fi
done
echo "regression finished: $total changes, $missed not caught"
# leave the harness built against the clean tree
(cd /verif/harness && CARGO_NET_OFFLINE=true cargo build --release --offline --bin vcheck >/dev/null 2>&1)
[ $missed -eq 0 ]
