#!/bin/bash
# Background hunt for rare violations: runs a check at many seeds and keeps the output of every run
# that reports a violation or cross observation matching a pattern.
# usage: tools/hunt.sh <Cxx> <tier> <first_seed> <last_seed> <pattern> [stream]
cd "$(dirname "$0")/../harness" || exit 2
CARGO_NET_OFFLINE=true cargo build --release --offline --bin vcheck > /dev/null 2>&1 || { echo "build failed"; exit 2; }
mkdir -p ../tmp/hunt
for seed in $(seq "$3" "$4"); do
  args=("$1" --tier "$2" --seed "$seed" --evidence "../tmp/hunt/ev_$1_$seed.json")
  [ -n "$6" ] && args+=(--stream "$6")
  VERIF_ROOT="$(cd .. && pwd)" ./target/release/vcheck "${args[@]}" > "../tmp/hunt/out_$1_$seed.txt" 2>&1
  if grep -qE "$5" "../tmp/hunt/out_$1_$seed.txt"; then
    echo "HIT $1 seed $seed"
    grep -E "$5" "../tmp/hunt/out_$1_$seed.txt" | head -3
  else
    rm -f "../tmp/hunt/out_$1_$seed.txt" "../tmp/hunt/ev_$1_$seed.json"
  fi
done
echo "hunt finished"
