#!/usr/bin/env python3
"""Generates /verif/MANIFEST.json from the table below (keeps it valid and in one place)."""
import json, os, subprocess

ROOT = os.path.dirname(os.path.dirname(os.path.abspath(__file__)))

HOOK_COMMITS = ["6458c78", "9fe18c3"]

# id -> (category, technique, level text, level note, design_ref)
SIM = "real btdht nodes on a simulated network under tokio's paused (virtual) clock; "
CHECKS = {
    "C01": ("exploration", "runtime monitoring: end-to-end oracle over search streams of 2..9 real nodes under virtual time",
        "Held = on every sampled network, schedule and offset (seconds .. 24 h +- seconds .. 3 days) each search found / no longer found the announcers exactly as the 24 h rule demands; premises (all nodes know each other) are checked before every step.",
        "Sampled configurations and latency-induced schedules only; round trips kept below the 1.5 s query timeout; virtual clock hook.", "DESIGN.md §6 C01"),
    "C02": ("exploration", "runtime monitoring: wire-log + stream oracle against an omniscient scripted world",
        "Held = in every explored world (1..1000 nodes, adversarial id placements, latencies < 1 s) the announce targets were exactly the XOR-closest 8 with that node's own token, own id and right port, and the stream multiset equalled the multiset of delivered values; premises checked on the wire.",
        "'truly closest' lists come from the scripted world; tie-free delivery; sampled placements.", "DESIGN.md §6 C02"),
    "C03": ("fault_enumeration", "runtime monitoring: wire-only shadow of each search under message faults and 9 forgery classes",
        "Held = over all explored fault patterns x forgery classes x search phases nothing was yielded or announced that the wire-only shadow does not justify (unique tagged values/tokens make membership exact).",
        "Forgery classes and fault rates are enumerated/sampled, not exhaustive; right tid from another source counts as an answer.", "DESIGN.md §6 C03"),
    "C04": ("fault_enumeration", "runtime monitoring: wire-only shadow + virtual-time stamps of stream close under 10 fault patterns, adversarial chains, edge cases",
        "Held = every explored search closed exactly 1.5 s after the instant its last outstanding query was resolved, within the stated bound, never missed an in-time answer; edge cases closed immediately.",
        "Tie instants excluded by tie-free delivery; with send failures only termination is judged.", "DESIGN.md §6 C04"),
    "C05": ("exploration", "runtime monitoring: exactly-once reply matcher over the wire log + content predicates (independent codec)",
        "Held = for every injected datagram (each from its own source address) the node's answers matched 1:1 and satisfied the content rules; nothing else was answered.",
        "Well-formed = BEP5 argument lists; ambiguous hostile datagrams may get 0 or 1 answers.", "DESIGN.md §6 C05"),
    "C06": ("exploration", "runtime monitoring: three-band token oracle over generated histories (module driver + real node)",
        "Held = on all explored histories tokens were accepted when issued to that IP <= 10 min ago, refused (203, nothing stored) when never issued to it or >= 30 min old.",
        "Validity between 10 and 30 min is left open, as the statement does; virtual clock hook.", "DESIGN.md §6 C06"),
    "C07": ("exploration", "runtime monitoring: reference-model comparison after every operation (module driver + real node)",
        "Held = after every explored operation accept/refuse and the returned values equalled the 24 h / 500-pair reference model.",
        "Histories sampled; virtual clock hook.", "DESIGN.md §6 C07"),
    "C08": ("exploration", "runtime monitoring: executable reference relation + shape invariants after every operation on the real RoutingTable",
        "Held = on all explored histories every transition was one the statement allows and all shape invariants held; failing histories are shrunk.",
        "Table driven through verif-only re-exports; routers fixed before the first offer.", "DESIGN.md §6 C08"),
    "C09": ("exploration", "runtime monitoring: iterator oracle (module) + 161-probe wire dump vs hook registry and reply predicates (real node)",
        "Held = every explored enumeration was a permutation of the live nodes with all closer-prefix nodes first, and every explored reply listed min(8, live) distinct live nodes of the requested family.",
        "Targets and table shapes sampled (1..160 buckets reached).", "DESIGN.md §6 C09"),
    "C10": ("exploration", "runtime monitoring: executable BEP5 status spec compared after every event (module) and against the wire log (real node, 1 Hz samples)",
        "Held = statuses equalled the spec on all explored histories incl. +-1 ms around 15 min; node-level samples never contradicted what the wire log allows.",
        "Node level uses only events the wire makes certain; re-mention of a dropped contact = fresh hearsay.", "DESIGN.md §6 C10"),
    "C11": ("exploration", "runtime monitoring: interval analysis over 1 Hz samples of load_contacts() and find_node probes over virtual hours",
        "Held = in all explored runs (up to 12 virtual hours) responsive contacts were never lost nor non-good > 30 s and silent ones were purged by the stated deadlines.",
        "'arbitrarily long' bounded to 12 h; latency < 250 ms.", "DESIGN.md §6 C11"),
    "C12": ("exploration", "runtime monitoring: poison-set monitor over load_contacts(), hook registry dump and search streams",
        "Held = no unsolicited sender, no name from an impossible response, no router address and not the own id ever appeared among contacts/table, nothing good without having been heard from, in all explored runs.",
        "Live-prefix forgeries are out of this property's wording.", "DESIGN.md §6 C12"),
    "C13": ("exploration", "runtime monitoring: differential oracle against an independent codec + metamorphic transforms, also after the codec was made to refuse something; thorough adds Miri and a coverage-guided libFuzzer + AddressSanitizer differential target",
        "Held = encode/decode agreed with the reference codec on every generated message, permutation, unknown-key variant and malformed variant.",
        "Reference codec written from BEP3/5/32, self-tested on BEP5's examples.", "DESIGN.md §6 C13"),
    "C14": ("exploration", "runtime monitoring + sanitizers: supervised worker processes with counting allocator, panic hook, 2 MiB stack; real nodes under hostile datagrams, duplicating network, adversarial contacts and API callers with liveness probes; thorough adds libFuzzer + AddressSanitizer, Miri and a debug-profile pass",
        "Held = no explored input (structure-aware hostile generator + systematic sweeps) aborted, panicked, overflowed the stack or requested memory out of proportion, and every explored node kept answering pings and API calls after every batch of hostile traffic.",
        "Thresholds: single request > 64 KiB or total > 64 x input + 64 KiB; release profile decides.", "DESIGN.md §6 C14"),
    "C15": ("exploration", "runtime monitoring: API liveness probes, waiter timestamps and wire log over generated configurations and outage patterns",
        "Held = in every explored configuration the node stayed alive, did not resolve before the first reply, and resolved every waiter within the derived bound.",
        "Routers are literal ip:port; bound derived from the code's constants.", "DESIGN.md §6 C15"),
    "C16": ("exploration", "runtime monitoring: differential oracle (early search vs. reference search on the same node)",
        "Held = every explored early search closed after bootstrap completion with exactly the reference peer set.",
        "Stable scripted world; reference must reproduce.", "DESIGN.md §6 C16"),
    "C17": ("exploration", "runtime monitoring: datagram-size monitor at the socket (always on) + dedicated store workload; known finding handled",
        "Held = no explored datagram exceeded 1500 bytes other than the known finding C17-values-uncapped, which is reported as KNOWN-FINDING.",
        "Known finding keyed on the exact signature (an oversize answer to a get_peers query that would fit without its values but not with every distinct value listed once); any other oversize datagram is a violation.", "DESIGN.md §6 C17"),
    "C18": ("exploration", "runtime monitoring: sliding-window counter over the guarded hook event log during multi-hour virtual runs",
        "Held = refresh rounds never exceeded window/6 s + 1 + completions in any window and pending timers stayed <= 1 in all explored runs (thousands of re-bootstrap cycles).",
        "Rounds observed through a guarded hook.", "DESIGN.md §6 C18"),
    "C19": ("exploration", "runtime monitoring: full-cycle generator driver with bitmap + wire/hook monitor over mixed scenarios",
        "Held = a full 2^24 cycle, both wraps and ~50 generator positions across the 40-bit range were repeat-free; every emitted query had an 8-byte id attributable to exactly one live activity, also on nodes taken past an action-id block boundary (> 2048 searches).",
        "2^40 period sampled (both ends, powers of two, random block positions), not enumerated.", "DESIGN.md §6 C19"),
    "C20": (
        "exploration",
        "runtime oracle: independent BEP42 validator (own CRC32-C) over generated addresses",
        "Every one of the 2^20 mask-relevant IPv4 classes and millions of IPv6 /64 prefixes are fed to the real InfoHash::from_ip and each result is validated by an independent BEP42 checker; held = no mismatch on the ids actually generated (the internal 3 random bits are sampled, coverage of (class, r) pairs is reported).",
        "Trusts the BEP42 text (masks, shift, CRC32-C, 21 bits) and the harness's own bitwise CRC32-C, which is self-tested on BEP42's five vectors in every shard.",
        "DESIGN.md §6 C20",
    ),
}

NOT_BUILT = "check not built yet (work in progress; see DESIGN.md §6 for the planned monitor)"
ALL = [f"C{i:02d}" for i in range(1, 21)]


def main():
    checks = []
    for pid in ALL:
        if pid not in CHECKS:
            continue
        cat, tech, text, note, ref = CHECKS[pid]
        checks.append({
            "property_id": pid,
            "quick_cmd": f"./check {pid} quick",
            "thorough_cmd": f"./check {pid} thorough",
            "evidence_file": f"/verif/evidence/{pid}.json",
            "replay_cmd_template": f"./check {pid} --replay {{path}}",
            "engine": "vcheck",
            "level_claimed": {"category": cat, "text": text, "design_ref": ref},
            "level_note": note,
            "technique": tech,
        })
    manifest = {
        "version": 1,
        "setup_cmd": "cd /verif/harness && CARGO_NET_OFFLINE=true cargo build --release --offline --bin vcheck",
        "hooks": {
            "guard": "cargo feature `verif` of the btdht crate (off by default)",
            "enable": "the harness crate depends on btdht by path with features = [\"verif\"]; every check runs `cargo build --release --offline` in /verif/harness first, which recompiles /repo's working tree",
            "baseline_off_cmd": "cd /repo && cargo test --workspace --no-fail-fast --offline",
            "source_commits": HOOK_COMMITS,
            "add_only": True,
        },
        "engines": [
            {
                "name": "vcheck",
                "path": "/verif/harness",
                "serves_properties": sorted(CHECKS),
                "kind_free_text": "Rust harness: real btdht nodes on a simulated network under tokio's paused (virtual) clock, scripted hostile parties, wire log, reference-model monitors, module drivers; sharded over 16 cores",
            }
        ],
        "checks": checks,
        "not_applicable": [
            {"property_id": pid, "reason": NOT_BUILT} for pid in ALL if pid not in CHECKS
        ],
        "notes": "Technique family: runtime monitoring and sanitizers. Exit 0 = held on what was explored, 1 = VIOLATION line, 2 = INCONCLUSIVE (never folded into either). Known findings: /verif/KNOWN_FINDINGS.txt.",
    }
    with open(os.path.join(ROOT, "MANIFEST.json"), "w") as f:
        json.dump(manifest, f, indent=1)
        f.write("\n")


if __name__ == "__main__":
    main()
