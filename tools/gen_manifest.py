#!/usr/bin/env python3
"""Generates /verif/MANIFEST.json from the table below (keeps it valid and in one place)."""
import json, os, subprocess

ROOT = os.path.dirname(os.path.dirname(os.path.abspath(__file__)))

HOOK_COMMITS = ["6458c78", "9fe18c3"]

# id -> (category, technique, level text, level note, design_ref)
CHECKS = {
    "C20": (
        "exploration",
        "runtime oracle: independent BEP42 validator (own CRC32-C) over generated addresses",
        "Every one of the 2^20 mask-relevant IPv4 classes and millions of IPv6 /64 prefixes are fed to the real InfoHash::from_ip and each result is validated by an independent BEP42 checker; held = no mismatch on the ids actually generated (the internal 3 random bits are sampled, coverage of (class, r) pairs is reported).",
        "Trusts the BEP42 text (masks, shift, CRC32-C, 21 bits) and the harness's own bitwise CRC32-C, which is self-tested on BEP42's five vectors in every shard.",
        "DESIGN.md §6 C20",
    ),
}

NOT_BUILT = "check not built yet (work in progress; see DESIGN.md §6 for the planned monitor)"
ALL = [f"C{i:02d}" for i in range(1, 21)]


def main():
    checks = []
    for pid in ALL:
        if pid not in CHECKS:
            continue
        cat, tech, text, note, ref = CHECKS[pid]
        checks.append({
            "property_id": pid,
            "quick_cmd": f"./check {pid} quick",
            "thorough_cmd": f"./check {pid} thorough",
            "evidence_file": f"/verif/evidence/{pid}.json",
            "replay_cmd_template": f"./check {pid} --replay {{path}}",
            "engine": "vcheck",
            "level_claimed": {"category": cat, "text": text, "design_ref": ref},
            "level_note": note,
            "technique": tech,
        })
    manifest = {
        "version": 1,
        "setup_cmd": "cd /verif/harness && CARGO_NET_OFFLINE=true cargo build --release --offline --bin vcheck",
        "hooks": {
            "guard": "cargo feature `verif` of the btdht crate (off by default)",
            "enable": "the harness crate depends on btdht by path with features = [\"verif\"]; every check runs `cargo build --release --offline` in /verif/harness first, which recompiles /repo's working tree",
            "baseline_off_cmd": "cd /repo && cargo test --workspace --no-fail-fast --offline",
            "source_commits": HOOK_COMMITS,
            "add_only": True,
        },
        "engines": [
            {
                "name": "vcheck",
                "path": "/verif/harness",
                "serves_properties": sorted(CHECKS),
                "kind_free_text": "Rust harness: real btdht nodes on a simulated network under tokio's paused (virtual) clock, scripted hostile parties, wire log, reference-model monitors, module drivers; sharded over 16 cores",
            }
        ],
        "checks": checks,
        "not_applicable": [
            {"property_id": pid, "reason": NOT_BUILT} for pid in ALL if pid not in CHECKS
        ],
        "notes": "Technique family: runtime monitoring and sanitizers. Exit 0 = held on what was explored, 1 = VIOLATION line, 2 = INCONCLUSIVE (never folded into either). Known findings: /verif/KNOWN_FINDINGS.txt.",
    }
    with open(os.path.join(ROOT, "MANIFEST.json"), "w") as f:
        json.dump(manifest, f, indent=1)
        f.write("\n")


if __name__ == "__main__":
    main()
