#!/bin/bash
# usage: tools/sweep.sh <tier> <first_seed> <last_seed> [checks...]   (run from a /verif snapshot or /verif itself)
# Runs the checks at several seeds; prints every non-zero exit with its reason. Evidence goes to tmp/.
tier=$1; a=$2; b=$3; shift 3
checks=${@:-C01 C02 C03 C04 C05 C06 C07 C08 C09 C10 C11 C12 C13 C14 C15 C16 C17 C18 C19 C20}
root="$(cd "$(dirname "$0")/.." && pwd)"
cd "$root/harness" && CARGO_NET_OFFLINE=true cargo build --release --offline --bin vcheck >/dev/null 2>&1 || { echo "build failed"; exit 2; }
mkdir -p "$root/tmp"
bad=0
for seed in $(seq $a $b); do
  for c in $checks; do
    out=$(VERIF_ROOT="$root" timeout 7200 ./target/release/vcheck $c --tier $tier --seed $seed --evidence "$root/tmp/sweep_$c.json" 2>&1); rc=$?
    if [ $rc -ne 0 ]; then bad=$((bad+1)); echo "seed=$seed $c rc=$rc"; echo "$out" | grep -E "^VIOLATION|violation:|^INCONCLUSIVE" | head -4 | cut -c1-400; fi
  done
  echo "seed $seed done (bad so far: $bad)"
done
echo "sweep finished: $bad non-zero exits"
