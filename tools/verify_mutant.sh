#!/bin/bash
# usage: tools/verify_mutant.sh <deliver_dir> <seeded_id>
# Confirms in a scratch worktree that (1) the demo passes on the clean tree, (2) the existing suite
# passes with the patch, (3) the demo fails with the patch. Then copies the artefacts to
# /verif/seeded/<seeded_id>/. The scratch worktree /tmp/verify_wt is reused (build cache).
d=$1; id=$2
wt=/tmp/verify_wt
if [ ! -d $wt ]; then git -C /repo worktree add -q --detach $wt HEAD && cp /repo/Cargo.lock $wt/; fi
cd $wt || exit 2
git checkout -q --detach $(git -C /repo rev-parse HEAD) 2>/dev/null
git checkout -q -- . ; git clean -fdq -- src tests examples
demo_cmd=$(cat $d/demo_cmd.txt | grep -E "cargo" | head -1)
place_demo() { for f in $d/*.rs; do
  case "$demo_cmd" in *--example*) mkdir -p examples; cp $f examples/;; *) cp $f tests/;; esac
done; }
remove_demo() { for f in $d/*.rs; do rm -f tests/$(basename $f) examples/$(basename $f); done; }
place_demo
echo "demo command: $demo_cmd"
run() { ( eval "$1" ) > /tmp/verify_out.txt 2>&1; echo $?; }
r1=$(run "$demo_cmd"); echo "demo on clean tree: rc=$r1"; tail -3 /tmp/verify_out.txt | cut -c1-200
git apply $d/patch.diff || { echo "PATCH DOES NOT APPLY"; exit 1; }
remove_demo
r2=$(run "cargo test --workspace --no-fail-fast --offline"); echo "existing suite with patch (demo file removed): rc=$r2"
grep -E "^test result" /tmp/verify_out.txt | head -4
r2b=$(run "cargo build --offline --features verif"); echo "build with verif feature: rc=$r2b"
place_demo
r3=$(run "$demo_cmd"); echo "demo with patch: rc=$r3"; grep -E "panicked|FAILED|failed" /tmp/verify_out.txt | head -4 | cut -c1-300
git checkout -q -- . ; git clean -fdq -- src tests examples
if [ "$r1" = 0 ] && [ "$r2" = 0 ] && [ "$r2b" = 0 ] && [ "$r3" != 0 ]; then
  mkdir -p /verif/seeded/$id; cp $d/patch.diff $d/*.rs $d/demo_cmd.txt $d/notes.md /verif/seeded/$id/ 2>/dev/null
  echo "CONFIRMED -> /verif/seeded/$id"
else
  echo "NOT CONFIRMED"
fi
