#!/bin/bash
# usage: tools/try_mutant.sh <patch.diff> <Cxx> [<Cyy> ...]
# Applies a seeded change to /repo, runs the quick checks named, and undoes the change.
patch=$1; shift
cd /repo || exit 2
if ! git diff --quiet; then echo "/repo has uncommitted changes"; exit 2; fi
git apply "$patch" || { echo "patch does not apply"; exit 2; }
trap 'git -C /repo checkout -- . ; git -C /repo clean -fdq -- src tests examples 2>/dev/null' EXIT
for c in "$@"; do
  s=$(date +%s)
  out=$(cd /verif && VERIF_SEED=${VERIF_SEED:-1} ./check "$c" quick --evidence /verif/tmp/mutant_ev.json 2>&1)
  rc=$?
  e=$(date +%s)
  echo "== $c rc=$rc wall=$((e-s))s"
  echo "$out" | grep -E "^VIOLATION|violation:|^INCONCLUSIVE|WARNING cross" | cut -c1-420 | head -6
done
