//! Structure-aware generator of hostile datagrams (≤ 1500 bytes), built by mutating the bencode
//! tree of valid KRPC messages.

use crate::gen;
use crate::refcodec::B;
use rand::seq::SliceRandom;
use rand::Rng;
use rand_chacha::ChaCha8Rng;

pub const MAX_DATAGRAM: usize = 1500;

#[derive(Clone, Copy, Debug, PartialEq, Eq, Hash)]
pub enum Class {
    HugeLength,
    IntLimit,
    Nesting,
    TypeConfusion,
    NonUtf8,
    Truncation,
    RandomBytes,
    BitFlip,
    BadKey,
    Oversize,
    Tiny,
    Valid,
    /// A well-formed error message whose text is long (up to ~700 bytes) valid UTF-8: ASCII up to
    /// a chosen offset, then 2/3/4-byte characters, so that a character straddles any byte offset
    /// a receiver might cut or inspect at.
    LongText,
    /// A message (as it is, or with its `r` / `a` dictionary turned into the list of its values: serde
    /// structs also deserialize from sequences) followed by more tokens after its end - empty strings,
    /// huge or zero-padded length prefixes, unterminated containers.
    TrailingTokens,
}

fn count_nodes(v: &B) -> usize {
    1 + match v {
        B::List(l) => l.iter().map(count_nodes).sum(),
        B::Dict(d) => d.iter().map(|(_, v)| count_nodes(v)).sum(),
        _ => 0,
    }
}

fn replace_node(v: &mut B, counter: &mut usize, target: usize, new: &mut Option<B>) {
    if *counter == target {
        if let Some(n) = new.take() {
            *v = n;
        }
        *counter += 1;
        return;
    }
    *counter += 1;
    match v {
        B::List(l) => {
            for item in l {
                if new.is_none() {
                    return;
                }
                replace_node(item, counter, target, new);
            }
        }
        B::Dict(d) => {
            for (_, item) in d {
                if new.is_none() {
                    return;
                }
                replace_node(item, counter, target, new);
            }
        }
        _ => {}
    }
}

fn node_at(v: &B, counter: &mut usize, target: usize) -> Option<B> {
    if *counter == target {
        return Some(v.clone());
    }
    *counter += 1;
    match v {
        B::List(l) => l.iter().find_map(|i| node_at(i, counter, target)),
        B::Dict(d) => d.iter().find_map(|(_, i)| node_at(i, counter, target)),
        _ => None,
    }
}

/// Decimal magnitudes: every power of ten and of two, ±1, up to beyond 2^64.
pub fn magnitudes() -> Vec<String> {
    let mut out = Vec::new();
    let mut p: u128 = 1;
    for _ in 0..30 {
        for d in [p.saturating_sub(1), p, p + 1] {
            out.push(d.to_string());
        }
        p = p.saturating_mul(10);
    }
    let mut p: u128 = 1;
    for _ in 0..72 {
        for d in [p.saturating_sub(1), p, p + 1] {
            out.push(d.to_string());
        }
        p = p.saturating_mul(2);
    }
    out.push("340282366920938463463374607431768211456".into()); // 2^128
    out.push("9".repeat(60));
    out.sort();
    out.dedup();
    // Non-canonical spellings of the same numbers: zero-padded to 21..64 digits, explicit plus
    // sign (both are accepted by lenient integer parsers).
    let mut spelled = Vec::new();
    for (i, m) in out.iter().enumerate() {
        if i % 3 == 0 {
            for width in [21usize, 24, 40, 64] {
                if m.len() < width {
                    spelled.push(format!("{}{}", "0".repeat(width - m.len()), m));
                }
            }
        }
        if i % 7 == 0 {
            spelled.push(format!("0{m}"));
            spelled.push(format!("+{m}"));
        }
    }
    out.extend(spelled);
    out
}

pub fn int_limits() -> Vec<String> {
    let mut out: Vec<String> = vec![
        "9223372036854775807".into(),
        "9223372036854775808".into(),
        "-9223372036854775808".into(),
        "-9223372036854775809".into(),
        "18446744073709551615".into(),
        "18446744073709551616".into(),
        "65535".into(),
        "65536".into(),
        "65537".into(),
        "255".into(),
        "256".into(),
        "257".into(),
        "-1".into(),
        "-0".into(),
        "0".into(),
        "00".into(),
        "01".into(),
        "".into(),
        "-".into(),
        "+1".into(),
        " 1".into(),
        "1 ".into(),
        "0x10".into(),
        "1e3".into(),
        "1.5".into(),
        "4294967295".into(),
        "4294967296".into(),
        "2147483648".into(),
        "-2147483649".into(),
    ];
    out.push("9".repeat(40));
    out
}

fn nesting(rng: &mut ChaCha8Rng, budget: usize) -> Vec<u8> {
    let budget = budget.max(2);
    let depth = match rng.gen_range(0..4) {
        0 => budget,
        1 => budget / 2,
        2 => rng.gen_range(1..=budget),
        _ => rng.gen_range(1..=budget.min(200)),
    };
    let mut out = Vec::new();
    match rng.gen_range(0..3) {
        0 => {
            out.resize(depth, b'l');
            if rng.gen_bool(0.5) {
                let closers = depth.min(budget.saturating_sub(depth));
                out.extend(std::iter::repeat(b'e').take(closers));
            }
        }
        1 => {
            let unit = b"d1:a";
            let n = (depth / unit.len()).max(1);
            for _ in 0..n {
                out.extend_from_slice(unit);
            }
            if rng.gen_bool(0.5) {
                out.extend_from_slice(b"i0e");
                out.extend(std::iter::repeat(b'e').take(n.min(budget.saturating_sub(out.len()))));
            }
        }
        _ => {
            for i in 0..depth {
                out.push(if i % 2 == 0 { b'l' } else { b'd' });
                if i % 2 == 1 {
                    out.extend_from_slice(b"1:k");
                }
            }
        }
    }
    out
}

fn hostile_node(rng: &mut ChaCha8Rng, old: &B, class: Class, mags: &[String], ints: &[String], budget: usize) -> B {
    match class {
        Class::HugeLength => {
            let m = mags.choose(rng).unwrap();
            let mut raw = m.clone().into_bytes();
            raw.push(b':');
            match old {
                B::Bytes(b) if rng.gen_bool(0.7) => raw.extend_from_slice(b),
                _ => {
                    let n = rng.gen_range(0..30);
                    raw.extend(gen::bytes(rng, n));
                }
            }
            B::Raw(raw)
        }
        Class::IntLimit => {
            let m = ints.choose(rng).unwrap();
            B::Raw(format!("i{m}e").into_bytes())
        }
        Class::Nesting => B::Raw(nesting(rng, budget)),
        Class::TypeConfusion => match (old, rng.gen_range(0..4)) {
            (B::Int(_), 0) | (_, 0) => B::Bytes(gen::bytes(rng, 3)),
            (_, 1) => B::Int(rng.gen_range(-3..70000)),
            (_, 2) => B::List(vec![old.clone()]),
            _ => B::Dict(vec![(b"id".to_vec(), old.clone())]),
        },
        Class::NonUtf8 => B::Bytes(match rng.gen_range(0..3) {
            0 => vec![0xff, 0xfe, 0xfd],
            1 => vec![0xc3, 0x28],
            _ => vec![b'n', b'4', 0x80],
        }),
        _ => old.clone(),
    }
}

pub struct Hostile {
    mags: Vec<String>,
    ints: Vec<String>,
}

impl Default for Hostile {
    fn default() -> Self {
        Hostile::new()
    }
}

impl Hostile {
    pub fn new() -> Hostile {
        Hostile {
            mags: magnitudes(),
            ints: int_limits(),
        }
    }

    /// A hostile datagram and the class of its (last) mutation.
    pub fn datagram(&self, rng: &mut ChaCha8Rng) -> (Vec<u8>, Class) {
        let base = gen::krpc(rng).to_value();
        let class = match rng.gen_range(0..100) {
            0..=10 => Class::HugeLength,
            11..=13 => Class::TrailingTokens,
            14..=17 => Class::LongText,
            18..=29 => Class::IntLimit,
            30..=44 => Class::Nesting,
            45..=56 => Class::TypeConfusion,
            57..=62 => Class::NonUtf8,
            63..=72 => Class::Truncation,
            73..=78 => Class::RandomBytes,
            79..=86 => Class::BitFlip,
            87..=91 => Class::BadKey,
            92..=94 => Class::Oversize,
            95..=96 => Class::Tiny,
            _ => Class::Valid,
        };
        let mut bytes = self.apply(rng, &base, class);
        // sometimes stack a second mutation on the bytes
        if rng.gen_bool(0.15) {
            match rng.gen_range(0..2) {
                0 if !bytes.is_empty() => {
                    let at = rng.gen_range(0..bytes.len());
                    bytes.truncate(at);
                }
                _ if !bytes.is_empty() => {
                    let at = rng.gen_range(0..bytes.len());
                    bytes[at] ^= 1 << rng.gen_range(0..8);
                }
                _ => {}
            }
        }
        bytes.truncate(MAX_DATAGRAM);
        (bytes, class)
    }

    pub fn apply(&self, rng: &mut ChaCha8Rng, base: &B, class: Class) -> Vec<u8> {
        let encoded_len = base.encode().len();
        let budget = MAX_DATAGRAM.saturating_sub(encoded_len).max(8);
        match class {
            Class::HugeLength
            | Class::IntLimit
            | Class::Nesting
            | Class::TypeConfusion
            | Class::NonUtf8 => {
                let n = count_nodes(base);
                let target = rng.gen_range(0..n);
                self.mutate_at(rng, base, target, class, budget)
            }
            Class::Truncation => {
                let enc = base.encode();
                let at = rng.gen_range(0..=enc.len());
                enc[..at].to_vec()
            }
            Class::RandomBytes => {
                let len = match rng.gen_range(0..4) {
                    0 => MAX_DATAGRAM,
                    1 => rng.gen_range(0..16),
                    _ => rng.gen_range(0..=MAX_DATAGRAM),
                };
                gen::bytes(rng, len)
            }
            Class::BitFlip => {
                let mut enc = base.encode();
                for _ in 0..rng.gen_range(1..4) {
                    if enc.is_empty() {
                        break;
                    }
                    let at = rng.gen_range(0..enc.len());
                    match rng.gen_range(0..3) {
                        0 => enc[at] ^= 1 << rng.gen_range(0..8),
                        1 => enc[at] = *b"dlie0123456789:-".choose(rng).unwrap(),
                        _ => enc[at] = rng.gen(),
                    }
                }
                enc
            }
            Class::BadKey => {
                let mut v = base.clone();
                if let B::Dict(items) = &mut v {
                    let extra = match rng.gen_range(0..5) {
                        0 => (b"t".to_vec(), B::bytes("dup")),
                        1 => (b"y".to_vec(), B::bytes("q")),
                        2 => (Vec::new(), B::Int(1)),
                        3 => (gen::bytes(rng, 300), B::Int(1)),
                        _ => (b"a".to_vec(), B::dict()),
                    };
                    let pos = rng.gen_range(0..=items.len());
                    items.insert(pos, extra);
                    if rng.gen_bool(0.3) {
                        // key that is not a string
                        let pos = rng.gen_range(0..=items.len());
                        let mut out = Vec::new();
                        out.push(b'd');
                        for (i, (k, val)) in items.iter().enumerate() {
                            if i == pos {
                                out.extend_from_slice(b"i5e3:abc");
                            }
                            B::Bytes(k.clone()).encode_into(&mut out);
                            val.encode_into(&mut out);
                        }
                        out.push(b'e');
                        return out;
                    }
                }
                v.encode()
            }
            Class::Oversize => {
                // valid message inflated to (beyond) the receive buffer with a large unknown value
                let mut v = base.clone();
                if let B::Dict(items) = &mut v {
                    let n = rng.gen_range(MAX_DATAGRAM - encoded_len.min(MAX_DATAGRAM)..=MAX_DATAGRAM);
                    items.push((b"zz".to_vec(), B::Bytes(vec![b'z'; n])));
                }
                v.encode()
            }
            Class::Tiny => {
                let opts: &[&[u8]] = &[
                    b"", b"d", b"e", b"de", b"le", b"i", b"ie", b"i0e", b"0:", b"1:", b":", b"d1:t", b"d1:y1:qe",
                    b"d1:t0:1:y1:re", b"d1:t0:1:y1:ee", b"d1:t0:1:y1:qe", b"d1:eli1ee1:t0:1:y1:ee", b"l1:ae",
                ];
                opts.choose(rng).unwrap().to_vec()
            }
            Class::Valid => base.encode(),
            Class::TrailingTokens => {
                let mut v = base.clone();
                if rng.gen_bool(0.6) {
                    if let B::Dict(items) = &mut v {
                        for (k, val) in items.iter_mut() {
                            if k == b"r" || k == b"a" {
                                if let B::Dict(inner) = val {
                                    let mut vals: Vec<B> = inner.iter().map(|(_, x)| x.clone()).collect();
                                    vals.truncate(rng.gen_range(0..=vals.len()));
                                    *val = B::List(vals);
                                }
                            }
                        }
                    }
                }
                // the list-valued entry last in the message (keys out of order), or alone: a reader
                // that takes a struct from a sequence then runs on into whatever follows the message
                if let B::Dict(items) = &mut v {
                    if let Some(at) = items.iter().position(|(k, val)| (k == b"r" || k == b"a") && matches!(val, B::List(_))) {
                        let item = items.remove(at);
                        match rng.gen_range(0..3) {
                            0 => items.clear(),
                            1 => items.truncate(rng.gen_range(0..=items.len())),
                            _ => {}
                        }
                        items.push(item);
                    }
                }
                let mut bytes = v.encode();
                for _ in 0..rng.gen_range(1..4) {
                    let mag = self.mags.choose(rng).cloned().unwrap_or_else(|| "99999999999".to_owned());
                    let piece: Vec<u8> = match rng.gen_range(0..7) {
                        0 => b"0:".to_vec(),
                        1 => format!("{mag}:").into_bytes(),
                        2 => format!("0{mag}:xx").into_bytes(),
                        3 => format!("l{mag}:").into_bytes(),
                        4 => format!("d1:x{mag}:").into_bytes(),
                        5 => b"i1e".to_vec(),
                        _ => b"e".to_vec(),
                    };
                    bytes.extend_from_slice(&piece);
                }
                bytes
            }
            Class::LongText => {
                let k = if rng.gen_bool(0.7) { rng.gen_range(0..=130) } else { rng.gen_range(0..=600) };
                let mut text: String = (0..k).map(|_| (b'a' + rng.gen_range(0..26u8)) as char).collect();
                let wide = *["é", "ß", "日", "語", "\u{1F600}", "\u{10FFFF}"].choose(rng).unwrap();
                let total = k + rng.gen_range(4..=120);
                while text.len() < total {
                    text.push_str(wide);
                }
                crate::refcodec::Krpc::error(gen::tid(rng), rng.gen_range(0..=255), &text).encode()
            }
        }
    }

    pub fn mutate_at(&self, rng: &mut ChaCha8Rng, base: &B, target: usize, class: Class, budget: usize) -> Vec<u8> {
        let old = node_at(base, &mut 0, target).unwrap_or(B::Int(0));
        let new = hostile_node(rng, &old, class, &self.mags, &self.ints, budget);
        let mut v = base.clone();
        replace_node(&mut v, &mut 0, target, &mut Some(new));
        v.encode()
    }

    pub fn node_count(base: &B) -> usize {
        count_nodes(base)
    }

    /// Systematic sweep for one message: truncation at every offset, each structural class at
    /// every node position, and each length magnitude at one position.
    pub fn sweep(&self, rng: &mut ChaCha8Rng, base: &B, mut f: impl FnMut(Vec<u8>, Class)) {
        let enc = base.encode();
        for at in 0..enc.len() {
            f(enc[..at].to_vec(), Class::Truncation);
        }
        let n = count_nodes(base);
        let budget = MAX_DATAGRAM.saturating_sub(enc.len()).max(8);
        for target in 0..n {
            for class in [
                Class::HugeLength,
                Class::IntLimit,
                Class::Nesting,
                Class::TypeConfusion,
                Class::NonUtf8,
            ] {
                let mut bytes = self.mutate_at(rng, base, target, class, budget);
                bytes.truncate(MAX_DATAGRAM);
                f(bytes, class);
            }
        }
        // every magnitude as the length of the transaction id (or of a random node)
        let target = rng.gen_range(0..n);
        for m in &self.mags {
            let mut v = base.clone();
            let raw = B::Raw(format!("{m}:xy").into_bytes());
            replace_node(&mut v, &mut 0, target, &mut Some(raw));
            let mut bytes = v.encode();
            bytes.truncate(MAX_DATAGRAM);
            f(bytes, Class::HugeLength);
        }
        for m in &self.ints {
            let mut v = base.clone();
            let raw = B::Raw(format!("i{m}e").into_bytes());
            replace_node(&mut v, &mut 0, target, &mut Some(raw));
            f(v.encode(), Class::IntLimit);
        }
    }
}
