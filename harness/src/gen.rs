//! Random generators shared by the checks.

use crate::refcodec::{Body, Id, Krpc, Query, Reply, Want};
use rand::seq::SliceRandom;
use rand::Rng;
use rand_chacha::ChaCha8Rng;
use std::net::{Ipv4Addr, Ipv6Addr, SocketAddr};

pub fn id(rng: &mut ChaCha8Rng) -> Id {
    let mut id = [0u8; 20];
    match rng.gen_range(0..10) {
        0 => {}
        1 => id = [0xff; 20],
        _ => rng.fill(&mut id),
    }
    id
}

pub fn rand_id(rng: &mut ChaCha8Rng) -> Id {
    let mut id = [0u8; 20];
    rng.fill(&mut id);
    id
}

/// An id sharing exactly `prefix` leading bits with `base` (prefix < 160), rest random.
pub fn id_with_prefix(rng: &mut ChaCha8Rng, base: &Id, prefix: usize) -> Id {
    assert!(prefix < 160);
    let mut out = rand_id(rng);
    for bit in 0..prefix {
        let mask = 0x80u8 >> (bit % 8);
        out[bit / 8] = (out[bit / 8] & !mask) | (base[bit / 8] & mask);
    }
    let mask = 0x80u8 >> (prefix % 8);
    out[prefix / 8] = (out[prefix / 8] & !mask) | (!base[prefix / 8] & mask);
    out
}

pub fn bytes(rng: &mut ChaCha8Rng, len: usize) -> Vec<u8> {
    let mut v = vec![0u8; len];
    match rng.gen_range(0..6) {
        0 => {}
        1 => v.iter_mut().for_each(|b| *b = 0xff),
        2 => v.iter_mut().for_each(|b| *b = *b"0123456789:eild-".choose(rng).unwrap()),
        _ => rng.fill(v.as_mut_slice()),
    }
    v
}

pub fn port(rng: &mut ChaCha8Rng) -> u16 {
    match rng.gen_range(0..8) {
        0 => 0,
        1 => 1,
        2 => 65535,
        3 => 6881,
        _ => rng.gen(),
    }
}

pub fn addr_v4(rng: &mut ChaCha8Rng) -> SocketAddr {
    let ip = match rng.gen_range(0..8) {
        0 => Ipv4Addr::UNSPECIFIED,
        1 => Ipv4Addr::BROADCAST,
        2 => Ipv4Addr::LOCALHOST,
        _ => Ipv4Addr::from(rng.gen::<u32>()),
    };
    SocketAddr::new(ip.into(), port(rng))
}

pub fn addr_v6(rng: &mut ChaCha8Rng) -> SocketAddr {
    let ip = match rng.gen_range(0..10) {
        0 => Ipv6Addr::UNSPECIFIED,
        1 => Ipv6Addr::LOCALHOST,
        2 => Ipv6Addr::from([0xff; 16]),
        // address forms with an embedded IPv4 address (dual-stack sockets, translators) and other
        // special-purpose blocks: IPv4-mapped, IPv4-compatible, NAT64, 6to4, Teredo, link-local
        3 | 4 => {
            let v4: u32 = rng.gen();
            let w = |hi: u128| Ipv6Addr::from(hi | v4 as u128);
            match rng.gen_range(0..7) {
                0 | 1 | 2 => w(0xffffu128 << 32),
                3 => w(0),
                4 => w(0x0064_ff9bu128 << 96),
                5 => Ipv6Addr::from((0x2002u128 << 112) | ((v4 as u128) << 80) | rng.gen::<u64>() as u128),
                _ => Ipv6Addr::from((0xfe80u128 << 112) | rng.gen::<u64>() as u128),
            }
        }
        _ => Ipv6Addr::from(rng.gen::<u128>()),
    };
    SocketAddr::new(ip.into(), port(rng))
}

pub fn want(rng: &mut ChaCha8Rng) -> Option<Want> {
    match rng.gen_range(0..4) {
        0 => None,
        1 => Some(Want::N4),
        2 => Some(Want::N6),
        _ => Some(Want::Both),
    }
}

fn count(rng: &mut ChaCha8Rng, max: usize) -> usize {
    match rng.gen_range(0..6) {
        0 => 0,
        1 => 1,
        2 => max,
        3 => rng.gen_range(0..=8.min(max)),
        _ => rng.gen_range(0..=max),
    }
}

pub fn tid(rng: &mut ChaCha8Rng) -> Vec<u8> {
    let len = match rng.gen_range(0..8) {
        0 => 0,
        1 => 2,
        2 => 8,
        3 => 32,
        _ => rng.gen_range(0..=32),
    };
    bytes(rng, len)
}

pub fn utf8(rng: &mut ChaCha8Rng) -> String {
    const PARTS: &[&str] = &[
        "", "A Generic Error Ocurred", "é", "日本語", "\u{1F600}", "\0", " ", "e", "0:", "i1e", "\n", "ß",
        "\u{FFFD}", "x",
    ];
    if rng.gen_bool(0.1) {
        // long text: ASCII up to some offset, then multi-byte characters
        let k = rng.gen_range(0..=300);
        let mut text: String = (0..k).map(|_| (b'a' + rng.gen_range(0..26u8)) as char).collect();
        let wide = *["é", "日本語", "\u{1F600}"].choose(rng).unwrap();
        let total = k + rng.gen_range(2..=200);
        while text.len() < total {
            text.push_str(wide);
        }
        return text;
    }
    let n = rng.gen_range(0..5);
    (0..n).map(|_| *PARTS.choose(rng).unwrap()).collect()
}

/// A well-formed KRPC message drawn over the whole field space of the codec property.
pub fn krpc(rng: &mut ChaCha8Rng) -> Krpc {
    let t = tid(rng);
    let body = match rng.gen_range(0..10) {
        0 => Body::Query {
            id: id(rng),
            q: Query::Ping,
        },
        1 => Body::Query {
            id: id(rng),
            q: Query::FindNode {
                target: id(rng),
                want: want(rng),
            },
        },
        2 => Body::Query {
            id: id(rng),
            q: Query::GetPeers {
                info_hash: id(rng),
                want: want(rng),
            },
        },
        3 | 4 => {
            let tlen = match rng.gen_range(0..6) {
                0 => 0,
                1 => 20,
                2 => 8,
                _ => rng.gen_range(0..64),
            };
            Body::Query {
                id: id(rng),
                q: Query::AnnouncePeer {
                    info_hash: id(rng),
                    port: if rng.gen_bool(0.4) { None } else { Some(port(rng)) },
                    token: bytes(rng, tlen),
                },
            }
        }
        5 => Body::Error {
            code: match rng.gen_range(0..4) {
                0 => rng.gen_range(201..=204),
                1 => 0,
                2 => 255,
                _ => rng.gen_range(0..=255),
            },
            msg: utf8(rng),
        },
        _ => {
            let mut r = Reply {
                id: id(rng),
                ..Default::default()
            };
            if rng.gen_bool(0.5) {
                let tlen = match rng.gen_range(0..5) {
                    0 => 0,
                    1 => 20,
                    _ => rng.gen_range(0..64),
                };
                r.token = Some(bytes(rng, tlen));
            }
            if rng.gen_bool(0.6) {
                for _ in 0..count(rng, 50) {
                    let id = rand_id(rng);
                    r.nodes.push((id, addr_v4(rng)));
                }
            }
            if rng.gen_bool(0.4) {
                for _ in 0..count(rng, 50) {
                    let id = rand_id(rng);
                    r.nodes6.push((id, addr_v6(rng)));
                }
            }
            if rng.gen_bool(0.5) {
                let mode = rng.gen_range(0..3);
                for _ in 0..count(rng, 50) {
                    let a = match mode {
                        0 => addr_v4(rng),
                        1 => addr_v6(rng),
                        _ => {
                            if rng.gen_bool(0.5) {
                                addr_v4(rng)
                            } else {
                                addr_v6(rng)
                            }
                        }
                    };
                    r.values.push(a);
                }
            }
            Body::Reply(r)
        }
    };
    Krpc { t, body }
}
