//! Wire-only shadow of a search (lookup), used by the search properties C02, C03, C04, C16.
//!
//! The shadow is rebuilt from what crossed the node's socket only:
//!  * every get_peers query the node sent for the info-hash is *outstanding* from the instant it
//!    was sent until (a) a response with its transaction id is delivered to the node, (b) it is
//!    1.5 s old, or (c) the stream closes;
//!  * an instant at which the outstanding set becomes empty through such a removal is a candidate
//!    start of the end-game; the stream may legally close only 1.5 s after a candidate (and, if
//!    the node sent nothing further at that candidate, it must close exactly then);
//!  * every stream item must be a value of a response that was accepted by rule (a), and every
//!    value of every accepted response must be yielded, once per occurrence;
//!  * announce_peer goes only to the source address of an accepted token-bearing response, with
//!    the latest token from there.
//!
//! The scenarios deliver datagrams to the node tie-free (see simnet), so every removal happens in
//! a millisecond tick of its own and the order of events inside the node is unambiguous.

use crate::json::{hex, J};
use crate::refcodec::{Body, Id, Krpc, Query};
use crate::runner::Report;
use crate::simnet::{Ev, Micros, Wire, MS};
use crate::world::SearchResult;
use std::collections::{BTreeMap, HashMap, HashSet};
use std::net::SocketAddr;

pub const QUERY_TIMEOUT: Micros = 1500 * MS;
pub const ENDGAME: Micros = 1500 * MS;
/// Tolerance on instants (timer granularity is 1 ms).
pub const TOL: Micros = 2 * MS;

#[derive(Clone, Debug)]
pub struct SentQuery {
    pub t: Micros,
    pub tid: Vec<u8>,
    pub dst: SocketAddr,
    pub failed: bool,
}

#[derive(Clone, Debug)]
pub struct Accepted {
    pub t: Micros,
    pub tid: Vec<u8>,
    pub src: SocketAddr,
    pub id: Id,
    pub values: Vec<SocketAddr>,
    pub token: Option<Vec<u8>>,
    pub nodes: Vec<(Id, SocketAddr)>,
    pub query_sent: Micros,
}

#[derive(Clone, Debug)]
pub struct Announce {
    pub t: Micros,
    pub dst: SocketAddr,
    pub id: Id,
    pub info_hash: Id,
    pub port: Option<u16>,
    pub token: Vec<u8>,
    pub tid: Vec<u8>,
}

#[derive(Clone, Debug, Default)]
pub struct Shadow {
    pub queries: Vec<SentQuery>,
    pub accepted: Vec<Accepted>,
    /// Responses carrying one of the search's tids that arrived when it was no longer outstanding.
    pub late_or_replayed: usize,
    pub announces: Vec<Announce>,
    /// Instants at which the outstanding set became empty through a removal: (t, node sent more queries at t).
    pub candidates: Vec<(Micros, bool)>,
    pub first_query: Option<Micros>,
    pub told: usize,
    pub send_failures: usize,
    /// The legal end-game start that matches the observed close, if any.
    pub endgame_start: Option<Micros>,
}

pub struct SearchSpec<'a> {
    pub node: SocketAddr,
    pub node_id: Id,
    pub v6: bool,
    pub info_hash: Id,
    pub announce: bool,
    pub announce_port: Option<u16>,
    pub result: &'a SearchResult,
}

fn is_get_peers_for(k: &Krpc, ih: &Id) -> bool {
    matches!(&k.body, Body::Query { q: Query::GetPeers { info_hash, .. }, .. } if info_hash == ih)
}

/// Build the shadow of one search from the wire log (entries at or after the search's start).
pub fn shadow(log: &[Wire], spec: &SearchSpec) -> Shadow {
    let mut sh = Shadow::default();
    let start = spec.result.started;
    let close = spec.result.ended;

    // Pass 1: the node's own queries and announces for this info-hash.
    let mut tids: HashSet<Vec<u8>> = HashSet::new();
    for w in log {
        if w.t < start || w.src != spec.node || !w.from_socket {
            continue;
        }
        if !matches!(w.ev, Ev::Send | Ev::SendFail) {
            continue;
        }
        let Ok(k) = Krpc::parse(&w.data) else { continue };
        if is_get_peers_for(&k, &spec.info_hash) {
            if let Some(c) = close {
                if w.t > c {
                    continue; // belongs to a later search for the same info-hash
                }
            }
            tids.insert(k.t.clone());
            sh.queries.push(SentQuery {
                t: w.t,
                tid: k.t.clone(),
                dst: w.dst,
                failed: w.ev == Ev::SendFail,
            });
            if w.ev == Ev::SendFail {
                sh.send_failures += 1;
            }
        } else if let Body::Query {
            id,
            q: Query::AnnouncePeer { info_hash, port, token },
        } = &k.body
        {
            if info_hash == &spec.info_hash && w.ev == Ev::Send {
                if let Some(c) = close {
                    if w.t > c + TOL {
                        continue;
                    }
                }
                sh.announces.push(Announce {
                    t: w.t,
                    dst: w.dst,
                    id: *id,
                    info_hash: *info_hash,
                    port: *port,
                    token: token.clone(),
                    tid: k.t.clone(),
                });
            }
        }
    }
    sh.first_query = sh.queries.iter().map(|q| q.t).min();

    // Pass 2: replay the timeline.
    #[derive(Debug)]
    enum E<'a> {
        Sent(&'a SentQuery),
        Resp(&'a Wire, Krpc),
    }
    let mut timeline: BTreeMap<Micros, Vec<E>> = BTreeMap::new();
    for q in &sh.queries {
        timeline.entry(q.t).or_default().push(E::Sent(q));
    }
    for w in log {
        if w.t < start || w.dst != spec.node || w.ev != Ev::Deliver {
            continue;
        }
        let Ok(k) = Krpc::parse(&w.data) else { continue };
        if k.as_reply().is_some() && tids.contains(&k.t) {
            timeline.entry(w.t).or_default().push(E::Resp(w, k));
        }
    }

    let mut outstanding: HashMap<Vec<u8>, Micros> = HashMap::new();
    let mut told: HashSet<(Id, SocketAddr)> = HashSet::new();
    let mut initial_dsts: HashSet<SocketAddr> = HashSet::new();
    // Timeouts need their own instants in the timeline.
    let mut pending_times: Vec<Micros> = timeline.keys().copied().collect();
    for q in &sh.queries {
        pending_times.push(q.t + QUERY_TIMEOUT);
    }
    pending_times.sort_unstable();
    pending_times.dedup();

    for t in pending_times {
        if let Some(c) = close {
            if t > c {
                break;
            }
        }
        let mut removed = false;
        // (1) timeouts
        let expired: Vec<Vec<u8>> = outstanding
            .iter()
            .filter(|(_, sent)| **sent + QUERY_TIMEOUT <= t)
            .map(|(tid, _)| tid.clone())
            .collect();
        for tid in expired {
            outstanding.remove(&tid);
            removed = true;
        }
        // (2) responses delivered at t
        let mut sends_here = false;
        if let Some(events) = timeline.get(&t) {
            for e in events {
                if let E::Resp(w, k) = e {
                    match outstanding.remove(&k.t) {
                        Some(sent) => {
                            removed = true;
                            let r = k.as_reply().unwrap();
                            let nodes = if spec.v6 { r.nodes6.clone() } else { r.nodes.clone() };
                            for n in &nodes {
                                told.insert(*n);
                            }
                            sh.accepted.push(Accepted {
                                t,
                                tid: k.t.clone(),
                                src: w.src,
                                id: r.id,
                                values: r.values.clone(),
                                token: r.token.clone(),
                                nodes,
                                query_sent: sent,
                            });
                        }
                        None => sh.late_or_replayed += 1,
                    }
                }
            }
            // (3) queries sent at t
            for e in events {
                if let E::Sent(q) = e {
                    sends_here = true;
                    outstanding.insert(q.tid.clone(), q.t);
                    if Some(q.t) == sh.first_query {
                        initial_dsts.insert(q.dst);
                    }
                }
            }
        }
        // (4) candidate end-game start: the set was emptied by a removal at t
        if removed {
            let only_new: bool = outstanding.values().all(|sent| *sent == t);
            if only_new {
                sh.candidates.push((t, sends_here));
            }
        }
    }
    sh.told = told.len() + initial_dsts.len();
    sh
}

/// Apply the search oracles. `premises_c02`: the scenario guarantees C02's premises (every queried
/// node answers within a second, truthful closest lists).
pub struct Oracle<'a> {
    pub report: &'a mut Report,
    pub info: J,
    /// Report violations of these properties under the owning check's property instead (the
    /// statements overlap: e.g. C02 also demands that every value found is delivered).
    pub remap: &'a [(&'a str, &'a str)],
}

impl Oracle<'_> {
    fn bad(&mut self, prop: &str, sig: &str, what: String, spec: &SearchSpec) {
        let prop = self
            .remap
            .iter()
            .find(|(from, _)| *from == prop)
            .map(|(_, to)| *to)
            .unwrap_or(prop);
        self.report.violation(
            prop,
            sig,
            what,
            self.info
                .clone()
                .with("info_hash", hex(&spec.info_hash))
                .with("node", spec.node.to_string())
                .with("search_started_us", spec.result.started),
        );
    }

    /// C03: nothing fabricated. C04 (part): nothing accepted is missed.
    pub fn check_values(&mut self, sh: &Shadow, spec: &SearchSpec) {
        let mut expected: HashMap<SocketAddr, i64> = HashMap::new();
        for a in &sh.accepted {
            for v in &a.values {
                *expected.entry(*v).or_default() += 1;
            }
        }
        let mut got: HashMap<SocketAddr, i64> = HashMap::new();
        for (_, v) in &spec.result.items {
            *got.entry(*v).or_default() += 1;
        }
        self.report.add("stream_items_checked", spec.result.items.len() as u64);
        self.report.add("accepted_responses", sh.accepted.len() as u64);
        self.report.add("late_or_replayed_responses_ignored", sh.late_or_replayed as u64);
        for (v, n) in &got {
            let e = expected.get(v).copied().unwrap_or(0);
            if *n > e {
                self.bad(
                    "C03",
                    "fabricated-value",
                    format!(
                        "search stream yielded {v} {n} time(s) but only {e} occurrence(s) were contained in responses to still-outstanding get_peers queries of this search"
                    ),
                    spec,
                );
            }
        }
        // Only when the stream was observed to its end can "missing" be judged; and when some of
        // the search's datagrams could not be sent the statement only demands termination (the
        // node abandons outstanding queries when a whole round fails to send).
        if spec.result.ended.is_some() && sh.send_failures == 0 {
            for (v, e) in &expected {
                let n = got.get(v).copied().unwrap_or(0);
                if n < *e {
                    self.bad(
                        "C04",
                        "value-missed",
                        format!(
                            "a response to a still-outstanding get_peers query (younger than 1.5 s, before the stream closed) contained {v} {e} time(s) but the stream yielded it {n} time(s)"
                        ),
                        spec,
                    );
                }
            }
        }
    }

    /// C03: announce discipline.
    pub fn check_announces(&mut self, sh: &Shadow, spec: &SearchSpec) {
        self.report.add("announces_checked", sh.announces.len() as u64);
        if !spec.announce && !sh.announces.is_empty() {
            self.bad(
                "C03",
                "announce-not-requested",
                format!("{} announce_peer sent although announcing was not requested", sh.announces.len()),
                spec,
            );
            return;
        }
        if sh.announces.len() > 8 {
            self.bad(
                "C03",
                "too-many-announces",
                format!("{} announce_peer sent by one search (at most 8 allowed)", sh.announces.len()),
                spec,
            );
        }
        // latest token per (id, addr) of accepted responses
        let mut latest: HashMap<(Id, SocketAddr), &Vec<u8>> = HashMap::new();
        for a in &sh.accepted {
            if let Some(t) = &a.token {
                latest.insert((a.id, a.src), t);
            }
        }
        // When some of the search's own datagrams could not be sent, the node abandons outstanding
        // queries (a whole round that fails to send clears them), so which of several answers
        // from one node it still takes is not determined by the wire. Send failures are outside
        // this property's fault model; then any token that node gave this search is accepted.
        let lenient = sh.send_failures > 0;
        for an in &sh.announces {
            let ok = latest.iter().any(|((_, addr), tok)| *addr == an.dst && **tok == an.token)
                || (lenient && sh.accepted.iter().any(|a| a.src == an.dst && a.token.as_ref() == Some(&an.token)));
            if !ok {
                let from_there = latest.keys().any(|(_, addr)| *addr == an.dst);
                let detail = format!(
                    "; queries to it {:?}; accepted from it {:?}; stream closed {:?}; announce at {}",
                    sh.queries.iter().filter(|q| q.dst == an.dst).map(|q| (q.t / MS, hex(&q.tid))).collect::<Vec<_>>(),
                    sh.accepted
                        .iter()
                        .filter(|a| a.src == an.dst)
                        .map(|a| (a.t / MS, hex(&a.tid), hex(&a.id[..3]), a.token.as_ref().map(|t| hex(t))))
                        .collect::<Vec<_>>(),
                    spec.result.ended.map(|e| e / MS),
                    an.t / MS
                );
                self.bad(
                    "C03",
                    if from_there { "announce-stale-or-foreign-token" } else { "announce-to-non-responder" },
                    format!(
                        "announce_peer to {} with token {} but {}",
                        an.dst,
                        hex(&an.token),
                        if from_there {
                            "that is not the latest token received from there in this search"
                        } else {
                            "no accepted response of this search came from there with a token"
                        }
                    ) + &detail,
                    spec,
                );
            }
            if an.id != spec.node_id {
                self.bad("C02", "announce-wrong-id", format!("announce_peer carries id {} instead of the node's id", hex(&an.id)), spec);
            }
            if an.port != spec.announce_port {
                self.bad(
                    "C02",
                    "announce-wrong-port",
                    format!("announce_peer carries port {:?}, configured {:?} (None = implied_port=1)", an.port, spec.announce_port),
                    spec,
                );
            }
        }
    }

    /// C04: the stream ends, neither early nor late. `sends_ok`: all the search's datagrams could
    /// be sent (otherwise only termination is required).
    pub fn check_timing(&mut self, sh: &mut Shadow, spec: &SearchSpec, observed_until: Micros) {
        let Some(first) = sh.first_query else {
            // No query was ever sent: the node knew no good node -> must close immediately.
            match spec.result.ended {
                Some(t) if t <= spec.result.started + TOL => self.report.count("searches_closed_immediately_without_queries"),
                other => self.bad(
                    "C04",
                    "no-query-no-immediate-close",
                    format!("search sent no query but its stream ended at {:?} (started {})", other, spec.result.started),
                    spec,
                ),
            }
            return;
        };
        let bound = first + QUERY_TIMEOUT * sh.told as u64 + 2 * QUERY_TIMEOUT + 5 * MS;
        self.report.maxi("told_nodes_max", sh.told as u64);
        match spec.result.ended {
            None => {
                if observed_until > bound {
                    self.bad(
                        "C04",
                        "never-ends",
                        format!(
                            "search stream still open {} ms after its first query (bound {} ms for {} nodes told about)",
                            (observed_until - first) / MS,
                            (bound - first) / MS,
                            sh.told
                        ),
                        spec,
                    );
                } else {
                    self.report.count("searches_not_observed_to_the_end");
                }
            }
            Some(end) => {
                self.report.maxi("longest_search_ms", (end - first) / MS);
                if end > bound {
                    self.bad(
                        "C04",
                        "ends-late",
                        format!(
                            "search stream closed {} ms after its first query, later than the bound of {} ms ({} nodes told about)",
                            (end - first) / MS,
                            (bound - first) / MS,
                            sh.told
                        ),
                        spec,
                    );
                }
                if sh.send_failures > 0 {
                    self.report.count("searches_with_send_failures_termination_only");
                    return;
                }
                // legal close instants: candidate + 1.5 s; a candidate without further queries is final
                let mut legal = None;
                let mut must_have_closed: Option<Micros> = None;
                for (t, more) in &sh.candidates {
                    let c = *t + ENDGAME;
                    if end + TOL >= c && end <= c + TOL {
                        legal = Some(*t);
                        break;
                    }
                    if !*more && c + TOL < end {
                        must_have_closed = Some(c);
                        break;
                    }
                }
                match (legal, must_have_closed) {
                    (Some(t), _) => {
                        sh.endgame_start = Some(t);
                        self.report.count("searches_closed_exactly_endgame_after_last_outstanding");
                    }
                    (None, Some(c)) => self.bad(
                        "C04",
                        "closes-late",
                        format!(
                            "stream closed at {} ms after start; its last outstanding query was resolved and nothing more was sent, so it had to close at {} ms",
                            (end - spec.result.started) / MS,
                            (c - spec.result.started) / MS
                        ),
                        spec,
                    ),
                    (None, None) => self.bad(
                        "C04",
                        "closes-early",
                        format!(
                            "stream closed at {} ms after start, which is not 1.5 s after any instant at which no query was outstanding (candidates at {:?} ms): a query younger than 1.5 s was still unanswered and no end-game had elapsed",
                            (end - spec.result.started) / MS,
                            sh.candidates.iter().map(|(t, _)| (*t - spec.result.started) / MS).collect::<Vec<_>>()
                        ),
                        spec,
                    ),
                }
            }
        }
    }
}

pub fn sample(sh: &Shadow, spec: &SearchSpec) -> J {
    J::obj()
        .with("info_hash", hex(&spec.info_hash))
        .with("announce", spec.announce)
        .with("queries", sh.queries.len())
        .with("accepted_responses", sh.accepted.len())
        .with("late_or_replayed", sh.late_or_replayed)
        .with("items_yielded", spec.result.items.len())
        .with("announces", sh.announces.len())
        .with("told", sh.told)
        .with(
            "duration_ms",
            spec.result
                .ended
                .map(|e| J::from((e - spec.result.started) / MS))
                .unwrap_or(J::Null),
        )
        .with(
            "endgame_candidates_ms",
            sh.candidates
                .iter()
                .map(|(t, m)| J::Arr(vec![J::from((*t - spec.result.started) / MS), J::Bool(*m)]))
                .collect::<Vec<_>>(),
        )
}
