//! Minimal JSON value + writer (serde_json is not available offline).

use std::fmt::Write;

#[derive(Clone, Debug, PartialEq)]
pub enum J {
    Null,
    Bool(bool),
    Int(i64),
    Num(f64),
    Str(String),
    Arr(Vec<J>),
    Obj(Vec<(String, J)>),
}

impl J {
    pub fn obj() -> J {
        J::Obj(Vec::new())
    }

    pub fn s(s: impl Into<String>) -> J {
        J::Str(s.into())
    }

    pub fn set(&mut self, key: &str, value: impl Into<J>) -> &mut J {
        if let J::Obj(items) = self {
            let value = value.into();
            if let Some(item) = items.iter_mut().find(|(k, _)| k == key) {
                item.1 = value;
            } else {
                items.push((key.to_owned(), value));
            }
        } else {
            panic!("J::set on non-object");
        }
        self
    }

    pub fn with(mut self, key: &str, value: impl Into<J>) -> J {
        self.set(key, value);
        self
    }

    pub fn get(&self, key: &str) -> Option<&J> {
        match self {
            J::Obj(items) => items.iter().find(|(k, _)| k == key).map(|(_, v)| v),
            _ => None,
        }
    }

    pub fn as_i64(&self) -> Option<i64> {
        match self {
            J::Int(i) => Some(*i),
            J::Num(f) => Some(*f as i64),
            _ => None,
        }
    }

    pub fn push(&mut self, value: impl Into<J>) {
        if let J::Arr(items) = self {
            items.push(value.into());
        } else {
            panic!("J::push on non-array");
        }
    }

    pub fn write(&self, out: &mut String) {
        match self {
            J::Null => out.push_str("null"),
            J::Bool(b) => out.push_str(if *b { "true" } else { "false" }),
            J::Int(i) => {
                let _ = write!(out, "{i}");
            }
            J::Num(f) => {
                if f.is_finite() {
                    let _ = write!(out, "{f}");
                } else {
                    out.push_str("null");
                }
            }
            J::Str(s) => write_str(s, out),
            J::Arr(items) => {
                out.push('[');
                for (i, item) in items.iter().enumerate() {
                    if i > 0 {
                        out.push(',');
                    }
                    item.write(out);
                }
                out.push(']');
            }
            J::Obj(items) => {
                out.push('{');
                for (i, (k, v)) in items.iter().enumerate() {
                    if i > 0 {
                        out.push(',');
                    }
                    write_str(k, out);
                    out.push(':');
                    v.write(out);
                }
                out.push('}');
            }
        }
    }

    pub fn to_string(&self) -> String {
        let mut out = String::new();
        self.write(&mut out);
        out
    }
}

fn write_str(s: &str, out: &mut String) {
    out.push('"');
    for c in s.chars() {
        match c {
            '"' => out.push_str("\\\""),
            '\\' => out.push_str("\\\\"),
            '\n' => out.push_str("\\n"),
            '\r' => out.push_str("\\r"),
            '\t' => out.push_str("\\t"),
            c if (c as u32) < 0x20 => {
                let _ = write!(out, "\\u{:04x}", c as u32);
            }
            c => out.push(c),
        }
    }
    out.push('"');
}

impl From<bool> for J {
    fn from(v: bool) -> J {
        J::Bool(v)
    }
}
impl From<i64> for J {
    fn from(v: i64) -> J {
        J::Int(v)
    }
}
impl From<u64> for J {
    fn from(v: u64) -> J {
        J::Int(v as i64)
    }
}
impl From<usize> for J {
    fn from(v: usize) -> J {
        J::Int(v as i64)
    }
}
impl From<u32> for J {
    fn from(v: u32) -> J {
        J::Int(v as i64)
    }
}
impl From<i32> for J {
    fn from(v: i32) -> J {
        J::Int(v as i64)
    }
}
impl From<f64> for J {
    fn from(v: f64) -> J {
        J::Num(v)
    }
}
impl From<&str> for J {
    fn from(v: &str) -> J {
        J::Str(v.to_owned())
    }
}
impl From<String> for J {
    fn from(v: String) -> J {
        J::Str(v)
    }
}
impl<T: Into<J>> From<Vec<T>> for J {
    fn from(v: Vec<T>) -> J {
        J::Arr(v.into_iter().map(Into::into).collect())
    }
}

pub fn hex(bytes: &[u8]) -> String {
    let mut s = String::with_capacity(bytes.len() * 2);
    for b in bytes {
        let _ = write!(s, "{b:02x}");
    }
    s
}

pub fn unhex(s: &str) -> Option<Vec<u8>> {
    if s.len() % 2 != 0 {
        return None;
    }
    (0..s.len())
        .step_by(2)
        .map(|i| u8::from_str_radix(s.get(i..i + 2)?, 16).ok())
        .collect()
}

// ---------------------------------------------------------------------------------------------
// Minimal parser (for reports passed between supervised worker processes and for replay files).

pub fn parse(text: &str) -> Result<J, String> {
    let b = text.as_bytes();
    let mut pos = 0;
    let v = parse_value(b, &mut pos)?;
    skip_ws(b, &mut pos);
    if pos != b.len() {
        return Err(format!("trailing data at {pos}"));
    }
    Ok(v)
}

fn skip_ws(b: &[u8], pos: &mut usize) {
    while *pos < b.len() && (b[*pos] as char).is_ascii_whitespace() {
        *pos += 1;
    }
}

fn parse_value(b: &[u8], pos: &mut usize) -> Result<J, String> {
    skip_ws(b, pos);
    match b.get(*pos) {
        None => Err("eof".into()),
        Some(b'n') => lit(b, pos, "null", J::Null),
        Some(b't') => lit(b, pos, "true", J::Bool(true)),
        Some(b'f') => lit(b, pos, "false", J::Bool(false)),
        Some(b'"') => Ok(J::Str(parse_string(b, pos)?)),
        Some(b'[') => {
            *pos += 1;
            let mut items = Vec::new();
            loop {
                skip_ws(b, pos);
                if b.get(*pos) == Some(&b']') {
                    *pos += 1;
                    return Ok(J::Arr(items));
                }
                items.push(parse_value(b, pos)?);
                skip_ws(b, pos);
                match b.get(*pos) {
                    Some(b',') => *pos += 1,
                    Some(b']') => {}
                    _ => return Err(format!("expected , or ] at {}", *pos)),
                }
            }
        }
        Some(b'{') => {
            *pos += 1;
            let mut items = Vec::new();
            loop {
                skip_ws(b, pos);
                if b.get(*pos) == Some(&b'}') {
                    *pos += 1;
                    return Ok(J::Obj(items));
                }
                let k = parse_string(b, pos)?;
                skip_ws(b, pos);
                if b.get(*pos) != Some(&b':') {
                    return Err(format!("expected : at {}", *pos));
                }
                *pos += 1;
                let v = parse_value(b, pos)?;
                items.push((k, v));
                skip_ws(b, pos);
                match b.get(*pos) {
                    Some(b',') => *pos += 1,
                    Some(b'}') => {}
                    _ => return Err(format!("expected , or }} at {}", *pos)),
                }
            }
        }
        Some(_) => {
            let start = *pos;
            while *pos < b.len() && matches!(b[*pos], b'-' | b'+' | b'.' | b'e' | b'E' | b'0'..=b'9') {
                *pos += 1;
            }
            let s = std::str::from_utf8(&b[start..*pos]).map_err(|_| "utf8")?;
            if let Ok(i) = s.parse::<i64>() {
                Ok(J::Int(i))
            } else {
                s.parse::<f64>().map(J::Num).map_err(|_| format!("bad number {s:?}"))
            }
        }
    }
}

fn lit(b: &[u8], pos: &mut usize, word: &str, v: J) -> Result<J, String> {
    if b[*pos..].starts_with(word.as_bytes()) {
        *pos += word.len();
        Ok(v)
    } else {
        Err(format!("bad literal at {}", *pos))
    }
}

fn parse_string(b: &[u8], pos: &mut usize) -> Result<String, String> {
    if b.get(*pos) != Some(&b'"') {
        return Err(format!("expected string at {}", *pos));
    }
    *pos += 1;
    let mut out = Vec::new();
    loop {
        match b.get(*pos) {
            None => return Err("eof in string".into()),
            Some(b'"') => {
                *pos += 1;
                return String::from_utf8(out).map_err(|_| "utf8".into());
            }
            Some(b'\\') => {
                *pos += 1;
                match b.get(*pos) {
                    Some(b'n') => out.push(b'\n'),
                    Some(b'r') => out.push(b'\r'),
                    Some(b't') => out.push(b'\t'),
                    Some(b'b') => out.push(8),
                    Some(b'f') => out.push(12),
                    Some(b'u') => {
                        let h = std::str::from_utf8(b.get(*pos + 1..*pos + 5).ok_or("eof")?)
                            .map_err(|_| "utf8")?;
                        let c = u32::from_str_radix(h, 16).map_err(|_| "bad \\u")?;
                        let ch = char::from_u32(c).unwrap_or('\u{fffd}');
                        let mut buf = [0u8; 4];
                        out.extend_from_slice(ch.encode_utf8(&mut buf).as_bytes());
                        *pos += 4;
                    }
                    Some(c) => out.push(*c),
                    None => return Err("eof".into()),
                }
                *pos += 1;
            }
            Some(c) => {
                out.push(*c);
                *pos += 1;
            }
        }
    }
}

impl J {
    pub fn as_str(&self) -> Option<&str> {
        match self {
            J::Str(s) => Some(s),
            _ => None,
        }
    }
    pub fn as_arr(&self) -> Option<&[J]> {
        match self {
            J::Arr(a) => Some(a),
            _ => None,
        }
    }
    pub fn as_obj(&self) -> Option<&[(String, J)]> {
        match self {
            J::Obj(o) => Some(o),
            _ => None,
        }
    }
}
