//! Supervised worker processes for workloads that may abort the process (allocation failure,
//! stack overflow): the child journals each input before touching it, the parent turns an
//! abnormal exit into a witness.

use crate::checks::Ctx;
use crate::json::{self, hex, J};
use crate::runner::Report;
use crate::verdict::verif_root;
use std::fs::{self, File};
use std::io::Read;
use std::os::unix::fs::FileExt;
use std::os::unix::process::ExitStatusExt;
use std::path::PathBuf;
use std::process::{Command, Stdio};
use std::sync::Mutex;
use std::time::{Duration, Instant};

static JOURNAL: Mutex<Option<File>> = Mutex::new(None);

/// Child side: open the journal file.
pub fn journal_open(path: &str) {
    if let Ok(f) = File::create(path) {
        *JOURNAL.lock().unwrap() = Some(f);
    }
}

/// Child side: record the input that is about to be processed (overwrites the previous one).
pub fn journal_note(tag: u8, bytes: &[u8]) {
    if let Some(f) = JOURNAL.lock().unwrap().as_ref() {
        let mut rec = Vec::with_capacity(bytes.len() + 5);
        rec.push(tag);
        rec.extend_from_slice(&(bytes.len() as u32).to_le_bytes());
        rec.extend_from_slice(bytes);
        let _ = f.write_all_at(&rec, 0);
    }
}

fn read_journal(path: &PathBuf) -> Option<(u8, Vec<u8>)> {
    let mut data = Vec::new();
    File::open(path).ok()?.read_to_end(&mut data).ok()?;
    if data.len() < 5 {
        return None;
    }
    let len = u32::from_le_bytes([data[1], data[2], data[3], data[4]]) as usize;
    Some((data[0], data.get(5..5 + len)?.to_vec()))
}

pub struct ChildOutcome {
    pub report: Report,
}

/// Parent side: run scenario `idx` of (`check`, `stream`) in a child process.
pub fn run_child(
    prop: &str,
    check: &str,
    stream: &str,
    ctx: &Ctx,
    idx: u64,
    wall_limit: Duration,
    profile_exe: Option<PathBuf>,
) -> Report {
    let mut report = Report::default();
    let dir = verif_root()
        .join("tmp")
        .join(format!("{}-{check}-{stream}-{idx}", std::process::id()));
    let _ = fs::create_dir_all(&dir);
    let out = dir.join("report.json");
    let journal = dir.join("journal.bin");
    let stderr_path = dir.join("stderr.txt");

    let exe = profile_exe.unwrap_or_else(|| std::env::current_exe().expect("current_exe"));
    let stderr_file = File::create(&stderr_path).ok();
    let mut cmd = Command::new(exe);
    cmd.arg(check)
        .arg("--worker")
        .arg(stream)
        .arg(idx.to_string())
        .arg("--seed")
        .arg(ctx.seed.to_string())
        .arg("--tier")
        .arg(ctx.tier.name())
        .arg("--out")
        .arg(&out)
        .arg("--journal")
        .arg(&journal)
        .env("RUST_BACKTRACE", "0")
        .stdin(Stdio::null())
        .stdout(Stdio::null());
    if let Some(f) = stderr_file {
        cmd.stderr(Stdio::from(f));
    }

    let started = Instant::now();
    let status = match cmd.spawn() {
        Ok(mut child) => loop {
            match child.try_wait() {
                Ok(Some(status)) => break Some(status),
                Ok(None) => {
                    if started.elapsed() > wall_limit {
                        let _ = child.kill();
                        let _ = child.wait();
                        break None;
                    }
                    std::thread::sleep(Duration::from_millis(5));
                }
                Err(_) => break None,
            }
        },
        Err(e) => {
            report
                .inconclusive
                .push(format!("cannot spawn worker for {check}/{stream}/{idx}: {e}"));
            let _ = fs::remove_dir_all(&dir);
            return report;
        }
    };

    let stderr_tail = fs::read_to_string(&stderr_path)
        .map(|s| {
            let s = s.trim();
            let mut end = s.len().min(300);
            while !s.is_char_boundary(end) {
                end -= 1;
            }
            s[..end].to_owned()
        })
        .unwrap_or_default();

    match status {
        None => report.inconclusive.push(format!(
            "worker {check}/{stream}/{idx} exceeded its wall-clock limit of {wall_limit:?} (watchdog, not a verdict)"
        )),
        Some(status) if status.success() => match fs::read_to_string(&out)
            .ok()
            .and_then(|t| json::parse(&t).ok())
            .and_then(|j| Report::from_json(&j))
        {
            Some(r) => report = r,
            None => report
                .inconclusive
                .push(format!("worker {check}/{stream}/{idx} wrote no readable report")),
        },
        Some(status) => {
            // Abnormal end: abort (allocation failure), stack overflow (SIGSEGV/SIGABRT), ...
            let how = match status.signal() {
                Some(sig) => format!("signal {sig}"),
                None => format!("exit status {}", status.code().unwrap_or(-1)),
            };
            let last = read_journal(&journal);
            match last {
                Some((tag, input)) => {
                    let kind = if stderr_tail.contains("memory allocation of") {
                        "alloc-failure"
                    } else if stderr_tail.contains("overflowed its stack") {
                        "stack-overflow"
                    } else {
                        "abnormal-exit"
                    };
                    report.evaluations += 1;
                    report.violation(
                        prop,
                        format!("worker-died:{kind}"),
                        format!(
                            "worker process died ({how}; stderr: {:?}) while handling input {:?} ({} bytes, phase {})",
                            stderr_tail,
                            String::from_utf8_lossy(&input[..input.len().min(120)]),
                            input.len(),
                            tag as char
                        ),
                        crate::checks::replay_info(check, stream, ctx, idx)
                            .with("input_hex", hex(&input))
                            .with("phase", (tag as char).to_string())
                            .with("died", how.as_str())
                            .with("stderr", stderr_tail.as_str()),
                    );
                }
                None => report.inconclusive.push(format!(
                    "worker {check}/{stream}/{idx} died ({how}) before journaling any input; stderr: {stderr_tail:?}"
                )),
            }
        }
    }
    let _ = fs::remove_dir_all(&dir);
    report
}

/// Child side: write the report where the parent expects it.
pub fn write_report(path: &str, report: &Report) {
    let _ = fs::write(path, report.to_json().to_string());
}

pub fn sample_input(bytes: &[u8]) -> J {
    J::obj()
        .with("len", bytes.len())
        .with("text", String::from_utf8_lossy(&bytes[..bytes.len().min(160)]).into_owned())
}
