//! Counting global allocator: per-thread "largest single request" and "total requested" while
//! metering is switched on. Used by the C14 monitor ("memory out of proportion to the input").

use std::alloc::{GlobalAlloc, Layout, System};
use std::cell::Cell;

pub struct Meter;

thread_local! {
    static ACTIVE: Cell<bool> = const { Cell::new(false) };
    static MAX_REQ: Cell<usize> = const { Cell::new(0) };
    static TOTAL: Cell<usize> = const { Cell::new(0) };
    static COUNT: Cell<usize> = const { Cell::new(0) };
}

#[inline]
fn note(size: usize) {
    let _ = ACTIVE.try_with(|a| {
        if a.get() {
            let _ = MAX_REQ.try_with(|m| m.set(m.get().max(size)));
            let _ = TOTAL.try_with(|t| t.set(t.get().saturating_add(size)));
            let _ = COUNT.try_with(|c| c.set(c.get() + 1));
        }
    });
}

unsafe impl GlobalAlloc for Meter {
    unsafe fn alloc(&self, layout: Layout) -> *mut u8 {
        note(layout.size());
        System.alloc(layout)
    }
    unsafe fn dealloc(&self, ptr: *mut u8, layout: Layout) {
        System.dealloc(ptr, layout)
    }
    unsafe fn alloc_zeroed(&self, layout: Layout) -> *mut u8 {
        note(layout.size());
        System.alloc_zeroed(layout)
    }
    unsafe fn realloc(&self, ptr: *mut u8, layout: Layout, new_size: usize) -> *mut u8 {
        note(new_size);
        System.realloc(ptr, layout, new_size)
    }
}

#[derive(Clone, Copy, Debug, Default)]
pub struct Usage {
    pub max_request: usize,
    pub total: usize,
    pub count: usize,
}

/// Start metering allocations made by the current thread.
pub fn start() {
    MAX_REQ.with(|m| m.set(0));
    TOTAL.with(|t| t.set(0));
    COUNT.with(|c| c.set(0));
    ACTIVE.with(|a| a.set(true));
}

/// Stop metering and return what was requested since `start`.
pub fn stop() -> Usage {
    ACTIVE.with(|a| a.set(false));
    Usage {
        max_request: MAX_REQ.with(|m| m.get()),
        total: TOTAL.with(|t| t.get()),
        count: COUNT.with(|c| c.get()),
    }
}
