//! Test bed: one real node under test on a simulated network, a scripted world to fill its
//! routing table, and scripted clients that inject datagrams and read the node's answers off the
//! wire log.

use crate::gen;
use crate::refcodec::{Id, Krpc};
use crate::simnet::{settle, sleep_us, v4, v6, Ev, Link, Micros, Net, Wire, MS, SEC};
use crate::world::{spawn_node, NodeCfg, WNode, World};
use btdht::MainlineDht;
use rand::seq::SliceRandom;
use rand::Rng;
use rand_chacha::ChaCha8Rng;
use std::net::SocketAddr;
use std::sync::{Arc, Mutex};
use std::time::Duration;

pub struct BedOpts {
    pub v6: bool,
    pub read_only: bool,
    pub world_size: usize,
    /// Fraction of world ids clustered around the node's id (deep buckets).
    pub clustered: f64,
    pub announce_port: Option<u16>,
    pub contacts: usize,
    pub peers_per_world_node: usize,
    /// Probability that a datagram on this network is duplicated (half of them back to back).
    pub dup_p: f64,
}

impl BedOpts {
    pub fn random(rng: &mut ChaCha8Rng) -> BedOpts {
        BedOpts {
            v6: rng.gen_bool(0.4),
            read_only: false,
            world_size: *[0usize, 1, 3, 9, 30, 120].choose(rng).unwrap(),
            clustered: *[0.0, 0.3, 0.9].choose(rng).unwrap(),
            announce_port: None,
            contacts: rng.gen_range(1..=8),
            peers_per_world_node: 0,
            dup_p: 0.0,
        }
    }
}

pub struct Bed {
    pub net: Net,
    pub dht: MainlineDht,
    pub addr: SocketAddr,
    pub id: Id,
    pub v6: bool,
    pub world: Arc<Mutex<World>>,
    pub bootstrapped: bool,
    next_client: u32,
    /// One-way latency used for client injections and their replies.
    pub client_latency: Micros,
}

pub fn node_addr(is_v6: bool, n: u32) -> SocketAddr {
    if is_v6 {
        v6(1, n as u64 + 1, 6881)
    } else {
        v4(10, (n >> 16) as u8, (n >> 8) as u8, n as u8, 6881)
    }
}

pub fn world_addr(is_v6: bool, n: u32) -> SocketAddr {
    if is_v6 && n % 5 == 3 {
        // every fifth IPv6 world node sits at an IPv4-mapped address (::ffff:20.x.y.z), as peers of
        // a dual-stack socket do
        let v4 = std::net::Ipv4Addr::new(20, (n >> 16) as u8, (n >> 8) as u8, n as u8);
        SocketAddr::new(v4.to_ipv6_mapped().into(), 7000 + (n % 1000) as u16)
    } else if is_v6 {
        v6(2, n as u64 + 1, 7000 + (n % 1000) as u16)
    } else {
        v4(20, (n >> 16) as u8, (n >> 8) as u8, n as u8, 7000 + (n % 1000) as u16)
    }
}

/// Build world node ids: a fraction clustered around `center` (long common prefixes), the rest
/// uniform.
pub fn world_ids(rng: &mut ChaCha8Rng, n: usize, center: &Id, clustered: f64) -> Vec<Id> {
    (0..n)
        .map(|_| {
            if rng.gen_bool(clustered) {
                let prefix = rng.gen_range(0..159);
                gen::id_with_prefix(rng, center, prefix)
            } else {
                gen::rand_id(rng)
            }
        })
        .collect()
}

impl Bed {
    pub async fn new(seed: u64, rng: &mut ChaCha8Rng, opts: &BedOpts) -> Bed {
        let net = Net::new(seed);
        let mut link = Link::uniform(5 * MS, 40 * MS);
        link.dup_p = opts.dup_p;
        net.set_link(link);
        let id = gen::rand_id(rng);
        let addr = node_addr(opts.v6, 1);

        let ids = world_ids(rng, opts.world_size, &id, opts.clustered);
        let nodes: Vec<WNode> = ids
            .into_iter()
            .enumerate()
            .map(|(i, wid)| {
                let mut n = WNode::new(wid, world_addr(opts.v6, i as u32));
                n.peers = opts.peers_per_world_node;
                n
            })
            .collect();
        let contacts: Vec<SocketAddr> = nodes
            .choose_multiple(rng, opts.contacts.min(nodes.len()))
            .map(|n| n.addr)
            .collect();
        let world = World::new(nodes);
        let owned: std::collections::HashSet<SocketAddr> = world.index.keys().copied().collect();
        let world = net.add_actor(move |a| owned.contains(a), world);

        let mut cfg = NodeCfg::new(addr);
        cfg.id = Some(id);
        cfg.read_only = opts.read_only;
        cfg.announce_port = opts.announce_port;
        cfg.nodes = contacts;
        let dht = spawn_node(&net, &cfg);

        let bootstrapped = tokio::time::timeout(Duration::from_secs(120), dht.bootstrapped())
            .await
            .unwrap_or(false);
        settle().await;

        Bed {
            net,
            dht,
            addr,
            id,
            v6: opts.v6,
            world,
            bootstrapped,
            next_client: 0,
            client_latency: 7 * MS,
        }
    }

    /// A client address never used before. `ip` selects one of a small pool of client IPs (tokens
    /// are bound to the IP); the port is fresh.
    pub fn client(&mut self, is_v6: bool, ip: u8) -> SocketAddr {
        self.next_client += 1;
        let port = 10_000 + (self.next_client % 50_000) as u16;
        let hi = (self.next_client / 50_000) as u8;
        if is_v6 && ip % 4 == 3 {
            // clients behind a dual-stack socket: IPv4-mapped source addresses
            SocketAddr::new(std::net::Ipv4Addr::new(30, hi, ip, 1).to_ipv6_mapped().into(), port)
        } else if is_v6 {
            v6(9, (ip as u64) << 8 | hi as u64, port)
        } else {
            v4(30, hi, ip, 1, port)
        }
    }

    /// Inject `bytes` from `src`; delivered once after exactly the client latency.
    pub fn inject(&self, src: SocketAddr, bytes: Vec<u8>) -> u64 {
        self.net
            .send_from_after(src, self.addr, bytes, self.client_latency)
    }

    /// Datagrams the node sent to `dst` (log entries from index `since` on).
    pub fn sent_to(&self, dst: &SocketAddr, since: usize) -> Vec<Wire> {
        self.net
            .log_since(since)
            .into_iter()
            .filter(|w| w.ev == Ev::Send && w.src == self.addr && w.dst == *dst)
            .collect()
    }

    /// Inject a query and wait for the node's answer(s) to it.
    pub async fn ask(&self, src: SocketAddr, msg: &Krpc) -> Vec<Krpc> {
        let mark = self.net.log_len();
        self.inject(src, msg.encode());
        sleep_us(self.client_latency + 2 * MS).await;
        self.sent_to(&src, mark)
            .iter()
            .filter_map(|w| Krpc::parse(&w.data).ok())
            .collect()
    }

    pub async fn idle(&self, us: Micros) {
        sleep_us(us).await;
    }
}

pub const ASK_WAIT: Micros = SEC;
