//! Bed for the search properties: a real searcher node, bootstrapped against a scripted world,
//! with tie-free delivery so that the wire-only shadow of its searches is unambiguous.

use crate::bed::{node_addr, world_addr};
use crate::gen;
use crate::refcodec::Id;
use crate::simnet::{settle, Link, Net, MS};
use crate::world::{spawn_node, NodeCfg, WNode, World};
use btdht::MainlineDht;
use rand::seq::SliceRandom;
use rand::Rng;
use rand_chacha::ChaCha8Rng;
use std::collections::HashSet;
use std::net::SocketAddr;
use std::sync::{Arc, Mutex};
use std::time::Duration;

#[derive(Clone, Copy, Debug, PartialEq, Eq)]
pub enum Placement {
    Uniform,
    /// Ids share long prefixes with the search target.
    AroundTarget,
    /// Ids share long prefixes with the searcher's own id.
    AroundSearcher,
    Mixed,
}

#[derive(Clone, Debug)]
pub struct SearchBedOpts {
    pub v6: bool,
    pub world_size: usize,
    pub placement: Placement,
    pub contacts: usize,
    pub read_only: bool,
    pub announce_port: Option<u16>,
    pub peers_max: usize,
    pub include_self: bool,
}

impl SearchBedOpts {
    pub fn random(rng: &mut ChaCha8Rng, max_world: usize) -> SearchBedOpts {
        let world_size = match rng.gen_range(0..10) {
            0 => 1,
            1 => *[7usize, 8, 9].choose(rng).unwrap(),
            2 => rng.gen_range(2..7),
            _ => {
                // log-uniform
                let max = (max_world as f64).ln();
                (rng.gen_range(0.0..max)).exp().ceil() as usize
            }
        }
        .clamp(1, max_world);
        SearchBedOpts {
            v6: rng.gen_bool(0.3),
            world_size,
            placement: *[
                Placement::Uniform,
                Placement::AroundTarget,
                Placement::AroundSearcher,
                Placement::Mixed,
            ]
            .choose(rng)
            .unwrap(),
            contacts: rng.gen_range(1..=20),
            read_only: rng.gen_bool(0.5),
            announce_port: if rng.gen_bool(0.5) { Some(gen::port(rng).max(1)) } else { None },
            peers_max: *[0usize, 1, 3, 20].choose(rng).unwrap(),
            include_self: rng.gen_bool(0.5),
        }
    }
}

pub struct SearchBed {
    pub net: Net,
    pub dht: MainlineDht,
    pub addr: SocketAddr,
    pub id: Id,
    pub v6: bool,
    pub world: Arc<Mutex<World>>,
    pub world_addrs: HashSet<SocketAddr>,
    pub bootstrapped: bool,
    pub opts: SearchBedOpts,
}

pub fn place_ids(rng: &mut ChaCha8Rng, n: usize, placement: Placement, target: &Id, searcher: &Id) -> Vec<Id> {
    let mut seen = HashSet::new();
    let mut out = Vec::with_capacity(n);
    while out.len() < n {
        let p = match placement {
            Placement::Mixed => *[Placement::Uniform, Placement::AroundTarget, Placement::AroundSearcher]
                .choose(rng)
                .unwrap(),
            p => p,
        };
        let id = match p {
            Placement::Uniform => gen::rand_id(rng),
            Placement::AroundTarget => {
                let prefix = rng.gen_range(0..159);
                gen::id_with_prefix(rng, target, prefix)
            }
            _ => {
                let prefix = rng.gen_range(0..159);
                gen::id_with_prefix(rng, searcher, prefix)
            }
        };
        if id != *target && id != *searcher && seen.insert(id) {
            out.push(id);
        }
    }
    out
}

impl SearchBed {
    /// `target`: the info-hash the placement may cluster around.
    pub async fn new(seed: u64, rng: &mut ChaCha8Rng, opts: SearchBedOpts, target: &Id) -> SearchBed {
        let net = Net::new(seed);
        // fast, reliable network while bootstrapping
        net.set_link(Link::uniform(2 * MS, 30 * MS));
        let id = gen::rand_id(rng);
        let addr = node_addr(opts.v6, 1);
        net.set_tie_free(addr);

        let ids = place_ids(rng, opts.world_size, opts.placement, target, &id);
        let nodes: Vec<WNode> = ids
            .into_iter()
            .enumerate()
            .map(|(i, wid)| {
                let mut n = WNode::new(wid, world_addr(opts.v6, i as u32));
                n.peers = if opts.peers_max == 0 { 0 } else { rng.gen_range(0..=opts.peers_max) };
                n
            })
            .collect();
        let contacts: Vec<SocketAddr> = nodes
            .choose_multiple(rng, opts.contacts.min(nodes.len()))
            .map(|n| n.addr)
            .collect();
        let mut world = World::new(nodes);
        world.include_self = opts.include_self;
        let world_addrs: HashSet<SocketAddr> = world.index.keys().copied().collect();
        let owned = world_addrs.clone();
        let world = net.add_actor(move |a| owned.contains(a), world);

        let mut cfg = NodeCfg::new(addr);
        cfg.id = Some(id);
        cfg.read_only = opts.read_only;
        cfg.announce_port = opts.announce_port;
        cfg.nodes = contacts;
        // injected scheduling points in the node's sends (see simnet)
        net.set_send_yield(*[0.0, 0.0, 0.3, 1.0].choose(rng).unwrap());
        let dht = spawn_node(&net, &cfg);
        // API calls racing the deliveries (callers on other threads), in a third of the beds
        if rng.gen_bool(0.33) {
            crate::world::api_hammer(&net, &dht, addr, seed, *[0.05, 0.3].choose(rng).unwrap(), 5_000);
        }
        let bootstrapped = tokio::time::timeout(Duration::from_secs(300), dht.bootstrapped())
            .await
            .unwrap_or(false);
        settle().await;
        SearchBed {
            net,
            dht,
            addr,
            id,
            v6: opts.v6,
            world,
            world_addrs,
            bootstrapped,
            opts,
        }
    }
}
