//! Small workloads meant to run under Miri (`cargo +nightly miri run --bin vmiri -- <part> <seed>`)
//! and under ASan: the undefined-behaviour / memory-error interpreter watches the real btdht code
//! (and the libraries it drives: bencode, serde, sha1, crc32c, tokio's time driver) while the
//! same oracles as in the native runs judge the results.
//!
//! Prints `SAN-OK part=<part> ops=<n>` on success; any oracle failure prints `SAN-FAIL ...` and
//! exits 1; a sanitizer report makes the process fail on its own.

use btdht_verif::checks::{c13_ops, Ctx};
use btdht_verif::hostile::Hostile;
use btdht_verif::refcodec::Id;
use btdht_verif::runner::Tier;
use btdht_verif::simnet::{run_sim, Link, Net, MS};
use btdht_verif::{gen, tabledrv};
use btdht_verif::world::{run_search, spawn_node, NodeCfg};
use rand::{Rng, SeedableRng};
use rand_chacha::ChaCha8Rng;
use std::collections::HashSet;
use std::time::Duration;

fn fail(msg: String) -> ! {
    println!("SAN-FAIL {msg}");
    std::process::exit(1);
}

fn main() {
    let args: Vec<String> = std::env::args().collect();
    let part = args.get(1).map(String::as_str).unwrap_or("all").to_owned();
    let seed: u64 = args.get(2).and_then(|s| s.parse().ok()).unwrap_or(1);
    let scale: usize = args.get(3).and_then(|s| s.parse().ok()).unwrap_or(1);
    let mut rng = ChaCha8Rng::seed_from_u64(seed);
    let mut ops = 0u64;

    if part == "codec" || part == "all" {
        // C13: round trip + transforms, C14: hostile decodes
        let ctx = Ctx { seed, tier: Tier::Quick };
        let r = c13_ops(&ctx, seed, 40 * scale);
        if !r.violations.is_empty() {
            fail(format!("codec oracle: {}", r.violations[0].what));
        }
        ops += r.evaluations;
        let hostile = Hostile::new();
        for _ in 0..150 * scale {
            let (bytes, _) = hostile.datagram(&mut rng);
            let res = std::panic::catch_unwind(|| btdht::message::Message::decode(&bytes).is_ok());
            if res.is_err() {
                fail(format!("decode panicked on {bytes:?}"));
            }
            ops += 1;
        }
    }
    if part == "table" || part == "all" {
        // C08/C09/C10 module drivers
        for h in 0..2 * scale {
            let me: Id = gen::rand_id(&mut rng);
            let routers = HashSet::new();
            let history = tabledrv::gen_history(
                &mut rng,
                &me,
                &routers,
                if scale == 1 { 50 } else { 120 },
                if h % 2 == 0 { tabledrv::Focus::Table } else { tabledrv::Focus::Status },
            );
            let tseed = rng.gen();
            let n = history.len() as u64;
            let out = run_sim(move || async move { tabledrv::run_history(me, &routers, &history, 10, tseed).await });
            if let Some(f) = out.failure {
                fail(format!("table oracle [{}]: {}", f.sig, f.what));
            }
            ops += n;
        }
    }
    if part == "ids" || part == "all" {
        // C19 generators (a few blocks incl. both wraps), C20
        let mut g = btdht::verif::MIDGenerator::verif_with_next_alloc(7, (1 << 24) - 2048);
        let mut seen = HashSet::new();
        for _ in 0..3000 {
            let t = g.generate();
            if t.as_ref().len() != 8 || !seen.insert(t.as_ref().to_vec()) {
                fail("message id repeats across the wrap".into());
            }
            ops += 1;
        }
        let mut a = btdht::verif::AIDGenerator::verif_with_next_alloc((1u64 << 40) - 2048);
        let mut seen = HashSet::new();
        for _ in 0..3000 {
            if !seen.insert(a.generate().action_id().verif_raw()) {
                fail("action id repeats across the wrap".into());
            }
            ops += 1;
        }
        for _ in 0..200 * scale {
            let ip: std::net::IpAddr = if rng.gen_bool(0.5) {
                std::net::Ipv4Addr::from(rng.gen::<u32>()).into()
            } else {
                std::net::Ipv6Addr::from(rng.gen::<u128>()).into()
            };
            let id: [u8; 20] = btdht::InfoHash::from_ip(ip).into();
            if !btdht_verif::checks::c20::bep42_valid(ip, &id) {
                fail(format!("from_ip({ip}) fails BEP42"));
            }
            ops += 1;
        }
    }
    if part == "store" || part == "all" {
        // C06/C07 module level
        let r = run_sim(move || async move {
            let mut ts = btdht::verif::TokenStore::new();
            let mut st = btdht::verif::AnnounceStorage::new();
            let ip: std::net::IpAddr = "10.1.2.3".parse().unwrap();
            let tok = ts.checkout(ip);
            let mut ok = ts.checkin(ip, tok);
            tokio::time::advance(Duration::from_secs(601)).await;
            ok &= ts.checkin(ip, tok);
            tokio::time::advance(Duration::from_secs(1800)).await;
            ok &= !ts.checkin(ip, tok);
            let ih = btdht::InfoHash::from([3u8; 20]);
            for p in 0..520u16 {
                let accepted = st.add_item(ih, std::net::SocketAddr::new(ip, 1000 + p));
                ok &= accepted == (p < 500);
            }
            ok &= st.find_items(&ih).count() == 500;
            tokio::time::advance(Duration::from_secs(24 * 3600)).await;
            ok &= st.find_items(&ih).count() == 0;
            ok
        });
        if !r {
            fail("token / store oracle".into());
        }
        ops += 530;
    }
    if part == "sim" || part == "all" {
        // three real nodes: announce and lookup over the simulated network
        let found = run_sim(move || async move {
            let net = Net::new(seed);
            net.set_link(Link::uniform(MS, 20 * MS));
            let addrs: Vec<_> = (0..3).map(|i| btdht_verif::bed::node_addr(false, 10 + i)).collect();
            let mut nodes = Vec::new();
            for i in 0..3 {
                let mut cfg = NodeCfg::new(addrs[i]);
                cfg.nodes = addrs.iter().enumerate().filter(|(j, _)| *j != i).map(|(_, a)| *a).collect();
                nodes.push(spawn_node(&net, &cfg));
            }
            for n in &nodes {
                let _ = tokio::time::timeout(Duration::from_secs(60), n.bootstrapped()).await;
            }
            tokio::time::sleep(Duration::from_secs(20)).await;
            let ih = [9u8; 20];
            let _ = run_search(&net, &nodes[0], ih, true, Duration::from_secs(60)).await;
            let r = run_search(&net, &nodes[1], ih, false, Duration::from_secs(60)).await;
            r.items.iter().any(|(_, a)| *a == addrs[0])
        });
        if !found {
            fail("3-node announce/lookup did not find the announcer".into());
        }
        ops += 1;
    }
    println!("SAN-OK part={part} seed={seed} ops={ops}");
}
