//! Writes a seed corpus for the libFuzzer targets in /verif/fuzz: canonical encodings of generated
//! well-formed messages, key-permuted variants and structure-aware hostile datagrams.
//! usage: vcorpus <dir> <seed> <count>
use btdht_verif::{gen, hostile::Hostile};
use rand::SeedableRng;
use rand_chacha::ChaCha8Rng;

fn main() {
    let args: Vec<String> = std::env::args().skip(1).collect();
    let dir = std::path::PathBuf::from(&args[0]);
    let seed: u64 = args.get(1).and_then(|s| s.parse().ok()).unwrap_or(1);
    let count: usize = args.get(2).and_then(|s| s.parse().ok()).unwrap_or(300);
    std::fs::create_dir_all(&dir).expect("corpus dir");
    let mut rng = ChaCha8Rng::seed_from_u64(seed);
    let hostile = Hostile::new();
    for i in 0..count {
        let bytes = if i % 3 == 2 {
            hostile.datagram(&mut rng).0
        } else {
            gen::krpc(&mut rng).encode()
        };
        if bytes.len() <= 1500 {
            std::fs::write(dir.join(format!("seed-{seed}-{i:05}")), bytes).expect("write");
        }
    }
}
