use btdht_verif::{checks, json, runner, verdict};
use std::path::PathBuf;

fn main() {
    let args: Vec<String> = std::env::args().skip(1).collect();
    if args.is_empty() {
        eprintln!("usage: vcheck <Cxx> [--tier quick|thorough] [--seed N] [--stream NAME] [--evidence PATH] [--replay FILE]");
        std::process::exit(2);
    }
    let id = args[0].clone();
    let mut tier = match std::env::var("VERIF_TIER").as_deref() {
        Ok("thorough") => runner::Tier::Thorough,
        _ => runner::Tier::Quick,
    };
    let mut seed: u64 = std::env::var("VERIF_SEED")
        .ok()
        .and_then(|s| s.parse().ok())
        .unwrap_or(1);
    let mut stream = None;
    let mut evidence = None;
    let mut replay = None;
    let mut worker: Option<(String, u64)> = None;
    let mut out = None;
    let mut i = 1;
    while i < args.len() {
        match args[i].as_str() {
            "--tier" => {
                i += 1;
                tier = if args[i] == "thorough" {
                    runner::Tier::Thorough
                } else {
                    runner::Tier::Quick
                };
            }
            "--seed" => {
                i += 1;
                seed = args[i].parse().expect("seed");
            }
            "--stream" => {
                i += 1;
                stream = Some(args[i].clone());
            }
            "--evidence" => {
                i += 1;
                evidence = Some(PathBuf::from(&args[i]));
            }
            "--worker" => {
                worker = Some((args[i + 1].clone(), args[i + 2].parse().expect("idx")));
                i += 2;
            }
            "--out" => {
                i += 1;
                out = Some(args[i].clone());
            }
            "--journal" => {
                i += 1;
                btdht_verif::supervise::journal_open(&args[i]);
            }
            "--replay" => {
                i += 1;
                replay = Some(args[i].clone());
            }
            other => {
                eprintln!("unknown argument {other}");
                std::process::exit(2);
            }
        }
        i += 1;
    }

    runner::install_panic_monitor();

    if let Some((stream, idx)) = worker {
        let out = out.expect("--out");
        std::process::exit(checks::worker(&id, tier, seed, &stream, idx, &out));
    }

    if let Some(path) = replay {
        // Replay files are written by `verdict::conclude`; pull the fields we need with a tiny
        // scanner (no JSON parser available).
        let text = std::fs::read_to_string(&path).expect("replay file");
        let field = |name: &str| -> Option<String> {
            let key = format!("\"{name}\":");
            let at = text.find(&key)? + key.len();
            let rest = text[at..].trim_start();
            if let Some(stripped) = rest.strip_prefix('"') {
                Some(stripped[..stripped.find('"')?].to_owned())
            } else {
                let end = rest.find(|c: char| c == ',' || c == '}').unwrap_or(rest.len());
                Some(rest[..end].trim().to_owned())
            }
        };
        let (Some(check), Some(stream), Some(idx), Some(seed), Some(tier)) = (
            field("check"),
            field("stream"),
            field("idx"),
            field("seed"),
            field("tier"),
        ) else {
            eprintln!("replay file {path} does not name check/stream/idx/seed/tier");
            std::process::exit(verdict::EXIT_INCONCLUSIVE);
        };
        let tier = if tier == "thorough" {
            runner::Tier::Thorough
        } else {
            runner::Tier::Quick
        };
        let _ = json::J::Null;
        std::process::exit(checks::replay(
            &check,
            tier,
            seed.parse().unwrap_or(1),
            &stream,
            idx.parse().unwrap_or(0),
        ));
    }

    std::process::exit(checks::run_check(&id, tier, seed, stream.as_deref(), evidence));
}
