//! Conversions between the reference KRPC model and btdht's public message types.

use crate::refcodec::{Body, Id, Krpc, Query, Reply, Want};
use btdht::message::{
    AnnouncePeerRequest, Error, FindNodeRequest, GetPeersRequest, Message, MessageBody,
    PingRequest, Request, Response, Want as BWant,
};
use btdht::verif::NodeHandle;
use btdht::InfoHash;
use std::net::SocketAddr;

pub fn ih(id: &Id) -> InfoHash {
    InfoHash::from(*id)
}

pub fn id_of(h: InfoHash) -> Id {
    h.into()
}

fn want(w: Option<Want>) -> Option<BWant> {
    w.map(|w| match w {
        Want::N4 => BWant::V4,
        Want::N6 => BWant::V6,
        Want::Both => BWant::Both,
    })
}

fn want_back(w: Option<BWant>) -> Option<Want> {
    w.map(|w| match w {
        BWant::V4 => Want::N4,
        BWant::V6 => Want::N6,
        BWant::Both => Want::Both,
    })
}

fn handles(nodes: &[(Id, SocketAddr)]) -> Vec<NodeHandle> {
    nodes
        .iter()
        .map(|(id, addr)| NodeHandle::new(ih(id), *addr))
        .collect()
}

/// `None` if the message is outside what btdht's types can express (error code > 255).
pub fn to_btdht(m: &Krpc) -> Option<Message> {
    let body = match &m.body {
        Body::Query { id, q } => MessageBody::Request(match q {
            Query::Ping => Request::Ping(PingRequest { id: ih(id) }),
            Query::FindNode { target, want: w } => Request::FindNode(FindNodeRequest {
                id: ih(id),
                target: ih(target),
                want: want(*w),
            }),
            Query::GetPeers { info_hash, want: w } => Request::GetPeers(GetPeersRequest {
                id: ih(id),
                info_hash: ih(info_hash),
                want: want(*w),
            }),
            Query::AnnouncePeer {
                info_hash,
                port,
                token,
            } => Request::AnnouncePeer(AnnouncePeerRequest {
                id: ih(id),
                info_hash: ih(info_hash),
                port: *port,
                token: token.clone(),
            }),
        }),
        Body::Reply(r) => MessageBody::Response(Response {
            id: ih(&r.id),
            values: r.values.clone(),
            nodes_v4: handles(&r.nodes),
            nodes_v6: handles(&r.nodes6),
            token: r.token.clone(),
        }),
        Body::Error { code, msg } => MessageBody::Error(Error {
            code: u8::try_from(*code).ok()?,
            message: msg.clone(),
        }),
    };
    Some(Message {
        transaction_id: m.t.clone(),
        body,
    })
}

pub fn from_btdht(m: &Message) -> Krpc {
    let body = match &m.body {
        MessageBody::Request(r) => match r {
            Request::Ping(p) => Body::Query {
                id: id_of(p.id),
                q: Query::Ping,
            },
            Request::FindNode(f) => Body::Query {
                id: id_of(f.id),
                q: Query::FindNode {
                    target: id_of(f.target),
                    want: want_back(f.want),
                },
            },
            Request::GetPeers(g) => Body::Query {
                id: id_of(g.id),
                q: Query::GetPeers {
                    info_hash: id_of(g.info_hash),
                    want: want_back(g.want),
                },
            },
            Request::AnnouncePeer(a) => Body::Query {
                id: id_of(a.id),
                q: Query::AnnouncePeer {
                    info_hash: id_of(a.info_hash),
                    port: a.port,
                    token: a.token.clone(),
                },
            },
        },
        MessageBody::Response(r) => Body::Reply(Reply {
            id: id_of(r.id),
            token: r.token.clone(),
            values: r.values.clone(),
            nodes: r.nodes_v4.iter().map(|n| (id_of(n.id), n.addr)).collect(),
            nodes6: r.nodes_v6.iter().map(|n| (id_of(n.id), n.addr)).collect(),
        }),
        MessageBody::Error(e) => Body::Error {
            code: e.code as i64,
            msg: e.message.clone(),
        },
    };
    Krpc {
        t: m.transaction_id.clone(),
        body,
    }
}
