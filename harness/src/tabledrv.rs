//! Module-level driver for the real `RoutingTable` (through the guarded re-exports) against an
//! executable reference model. Serves C08 (shape and replacement rules), C09 (nearest-node
//! enumeration) and C10 (status timing): after every operation the real table is dumped and
//! compared with what the model allows.

use crate::gen;
use crate::json::{hex, J};
use crate::refcodec::{flip_bit, lcp, Id};
use crate::runner::Report;
use crate::simnet::{Micros, MIN, MS, SEC};
use btdht::verif::{Node, NodeHandle, NodeStatus, RoutingTable};
use btdht::InfoHash;
use rand::seq::SliceRandom;
use rand::Rng;
use rand_chacha::ChaCha8Rng;
use std::collections::{BTreeMap, HashSet};
use std::net::SocketAddr;
use std::time::Duration;

pub const FIFTEEN_MIN: Micros = 15 * MIN;
pub const BUCKET: usize = 8;
pub const MAX_BUCKETS: usize = 160;

#[derive(Clone, Copy, Debug, PartialEq, Eq, PartialOrd, Ord, Hash)]
pub enum St {
    Bad,
    Questionable,
    Good,
}

impl From<NodeStatus> for St {
    fn from(s: NodeStatus) -> St {
        match s {
            NodeStatus::Bad => St::Bad,
            NodeStatus::Questionable => St::Questionable,
            NodeStatus::Good => St::Good,
        }
    }
}

pub type Handle = (Id, SocketAddr);

#[derive(Clone, Debug)]
pub enum Op {
    /// The node answered one of our queries.
    OfferGood(Handle),
    /// Somebody named the node.
    OfferHearsay(Handle),
    /// We sent the node a query.
    LocalRequest(Handle),
    /// The node sent us a query.
    RemoteRequest(Handle),
    Advance(Micros),
}

impl Op {
    pub fn to_json(&self) -> J {
        let h = |h: &Handle| format!("{}@{}", hex(&h.0), h.1);
        match self {
            Op::OfferGood(x) => J::s(format!("answer {}", h(x))),
            Op::OfferHearsay(x) => J::s(format!("hearsay {}", h(x))),
            Op::LocalRequest(x) => J::s(format!("query-to {}", h(x))),
            Op::RemoteRequest(x) => J::s(format!("query-from {}", h(x))),
            Op::Advance(d) => J::s(format!("advance {} ms", d / MS)),
        }
    }
}

/// Status inputs of one contact (the executable spec of C10).
#[derive(Clone, Debug)]
pub struct Contact {
    pub h: Handle,
    /// Time of the last accepted answer.
    pub a: Option<Micros>,
    /// Time of the last query received from it.
    pub q: Option<Micros>,
    /// Queries sent to it while it was not good, since its last answer.
    pub u: u32,
}

impl Contact {
    pub fn status(&self, t: Micros) -> St {
        if let Some(a) = self.a {
            if t - a < FIFTEEN_MIN {
                return St::Good;
            }
        }
        if self.u >= 2 {
            return St::Bad;
        }
        if let Some(q) = self.q {
            if t - q < FIFTEEN_MIN {
                return St::Good;
            }
        }
        St::Questionable
    }
}

pub struct Model {
    pub me: Id,
    pub routers: HashSet<SocketAddr>,
    pub buckets: usize,
    /// Known contacts, including dropped (bad) ones that may still sit in a slot.
    pub contacts: Vec<Contact>,
}

impl Model {
    pub fn slot(&self, id: &Id, buckets: usize) -> usize {
        lcp(&self.me, id).min(buckets - 1)
    }
    pub fn live(&self, t: Micros) -> Vec<&Contact> {
        self.contacts.iter().filter(|c| c.status(t) != St::Bad).collect()
    }
    fn find(&mut self, h: &Handle) -> Option<&mut Contact> {
        self.contacts.iter_mut().find(|c| c.h == *h)
    }
}

#[derive(Clone, Debug)]
pub struct DumpNode {
    pub h: Handle,
    pub st: St,
    pub bucket: usize,
}

pub fn dump(table: &RoutingTable) -> (usize, Vec<DumpNode>) {
    let mut out = Vec::new();
    let mut n = 0;
    for (bi, bucket) in table.buckets().enumerate() {
        n += 1;
        for node in bucket.iter() {
            let st: St = node.status().into();
            if st != St::Bad {
                out.push(DumpNode {
                    h: (node.id().into(), node.addr()),
                    st,
                    bucket: bi,
                });
            }
        }
    }
    (n, out)
}

pub struct Driver {
    pub table: RoutingTable,
    pub model: Model,
    pub now: Micros,
    pub t0: tokio::time::Instant,
}

#[derive(Clone, Debug)]
pub struct Failure {
    pub prop: &'static str,
    pub sig: String,
    pub what: String,
    pub step: usize,
}

#[derive(Default, Clone, Debug)]
pub struct Stats {
    pub ops: u64,
    pub splits: u64,
    pub replacements: u64,
    pub rejections: u64,
    pub admissions_free_slot: u64,
    pub repeats: u64,
    pub filtered: u64,
    pub status_checks: u64,
    pub boundary_checks: u64,
    pub closest_checks: u64,
    pub max_buckets: usize,
    pub became_bad: u64,
    pub shapes: Vec<String>,
    pub status_transitions: Vec<String>,
}

impl Driver {
    pub fn new(me: Id, routers: HashSet<SocketAddr>) -> Driver {
        let mut table = RoutingTable::new(InfoHash::from(me));
        table.routers = routers.clone();
        Driver {
            table,
            model: Model {
                me,
                routers,
                buckets: 1,
                contacts: Vec::new(),
            },
            now: 0,
            t0: tokio::time::Instant::now(),
        }
    }

    fn sync_now(&mut self) {
        self.now = (tokio::time::Instant::now() - self.t0).as_micros() as Micros;
    }

    /// Apply one operation to the real table and to the model; compare.
    pub async fn step(&mut self, op: &Op, step: usize, stats: &mut Stats) -> Result<(), Failure> {
        self.sync_now();
        let t = self.now;
        stats.ops += 1;
        let fail = |prop: &'static str, sig: &str, what: String| Failure {
            prop,
            sig: sig.to_owned(),
            what,
            step,
        };
        let before_live: Vec<(Handle, St)> = self.model.live(t).iter().map(|c| (c.h, c.status(t))).collect();
        let buckets_before = self.model.buckets;

        match op {
            Op::Advance(d) => {
                tokio::time::advance(Duration::from_micros(*d)).await;
                self.sync_now();
                let t2 = self.now;
                for (h, st) in &before_live {
                    let c = self.model.contacts.iter().find(|c| c.h == *h).unwrap();
                    let st2 = c.status(t2);
                    if st2 != *st {
                        stats.status_transitions.push(format!("{st:?}->{st2:?} by time"));
                        if st2 == St::Bad {
                            stats.became_bad += 1;
                        }
                    }
                }
            }
            Op::LocalRequest(h) => {
                if let Some(n) = self.table.find_node_mut(&NodeHandle::new(InfoHash::from(h.0), h.1)) {
                    n.local_request();
                }
                if let Some(c) = self.model.find(h) {
                    let st = c.status(t);
                    if st == St::Questionable {
                        c.u += 1;
                        if c.u >= 2 {
                            stats.became_bad += 1;
                            stats.status_transitions.push("Questionable->Bad by second unanswered query".into());
                        }
                    } else if st == St::Good && c.a.map(|a| t - a >= FIFTEEN_MIN).unwrap_or(true) {
                        // good only through a recent query from it: still "not answering"?  The
                        // implementation counts only while the contact is not good.
                    }
                }
            }
            Op::RemoteRequest(h) => {
                if let Some(n) = self.table.find_node_mut(&NodeHandle::new(InfoHash::from(h.0), h.1)) {
                    n.remote_request();
                }
                if let Some(c) = self.model.find(h) {
                    if c.status(t) != St::Bad {
                        let was = c.status(t);
                        c.q = Some(t);
                        if was == St::Questionable {
                            stats.status_transitions.push("Questionable->Good by query from it".into());
                        }
                    }
                }
            }
            Op::OfferGood(h) | Op::OfferHearsay(h) => {
                let good = matches!(op, Op::OfferGood(_));
                let s = if good { St::Good } else { St::Questionable };
                let node = if good {
                    Node::as_good(InfoHash::from(h.0), h.1)
                } else {
                    Node::as_questionable(InfoHash::from(h.0), h.1)
                };
                self.table.add_node(node);

                let (real_buckets, real) = dump(&self.table);
                let real_set: BTreeMap<Handle, &DumpNode> = real.iter().map(|n| (n.h, n)).collect();
                let before_set: BTreeMap<Handle, St> = before_live.iter().copied().collect();
                let gone: Vec<Handle> = before_set.keys().filter(|h| !real_set.contains_key(*h)).copied().collect();
                let added: Vec<Handle> = real_set.keys().filter(|h| !before_set.contains_key(*h)).copied().collect();

                let filtered = self.model.routers.contains(&h.1) || h.0 == self.model.me;
                let present = before_set.contains_key(h);
                if filtered {
                    stats.filtered += 1;
                    if !gone.is_empty() || !added.is_empty() || real_buckets != buckets_before {
                        return Err(fail(
                            "C08",
                            "filtered-offer-changed-table",
                            format!(
                                "offering {} (own id or router address) changed the table: added {:?} gone {:?}",
                                hex(&h.0),
                                added.len(),
                                gone.len()
                            ),
                        ));
                    }
                } else if present {
                    stats.repeats += 1;
                    if !gone.is_empty() || !added.is_empty() || real_buckets != buckets_before {
                        return Err(fail(
                            "C08",
                            "repeat-offer-changed-membership",
                            format!("re-offering a present node changed membership: added {} gone {}", added.len(), gone.len()),
                        ));
                    }
                    if good {
                        let c = self.model.find(h).unwrap();
                        let was = c.status(t);
                        c.a = Some(t);
                        c.u = 0;
                        if was != St::Good {
                            stats.status_transitions.push(format!("{was:?}->Good by answer"));
                        }
                    }
                } else {
                    // new to the live part: walk the reference relation
                    let mut b_model = buckets_before;
                    let expect: (&str, Vec<Handle>) = loop {
                        let b = self.model.slot(&h.0, b_model);
                        let in_b: Vec<&(Handle, St)> = before_live
                            .iter()
                            .filter(|(y, _)| self.model.slot(&y.0, b_model) == b)
                            .collect();
                        if in_b.len() < BUCKET {
                            break ("admit-free", vec![]);
                        }
                        let worse: Vec<Handle> = in_b.iter().filter(|(_, st)| *st < s).map(|(y, _)| *y).collect();
                        if !worse.is_empty() {
                            break ("admit-replace", worse);
                        }
                        if b == b_model - 1 && b_model < MAX_BUCKETS {
                            b_model += 1;
                            stats.splits += 1;
                            continue;
                        }
                        break ("reject", vec![]);
                    };
                    if real_buckets != b_model {
                        return Err(fail(
                            "C08",
                            "bucket-count",
                            format!(
                                "after offering {} the table has {real_buckets} buckets, the reference splits to {b_model} (only the bucket covering the local id may split)",
                                hex(&h.0)
                            ),
                        ));
                    }
                    match expect.0 {
                        "admit-free" => {
                            stats.admissions_free_slot += 1;
                            if !gone.is_empty() {
                                return Err(fail(
                                    "C08",
                                    "lost-node-despite-free-slot",
                                    format!(
                                        "offering {} ({s:?}) removed live node(s) {:?} although the target bucket had a free or bad slot",
                                        hex(&h.0),
                                        gone.iter().map(|g| format!("{}:{:?}", hex(&g.0[..4]), before_set[g])).collect::<Vec<_>>()
                                    ),
                                ));
                            }
                            if added != vec![*h] {
                                return Err(fail(
                                    "C08",
                                    "not-admitted-despite-room",
                                    format!("offered node {} was not admitted although its bucket had room", hex(&h.0)),
                                ));
                            }
                        }
                        "admit-replace" => {
                            stats.replacements += 1;
                            if added != vec![*h] {
                                return Err(fail(
                                    "C08",
                                    "not-admitted-despite-worse-node",
                                    format!("offered {s:?} node {} was not admitted although a node of lower standing sat in its bucket", hex(&h.0)),
                                ));
                            }
                            if gone.len() != 1 || !expect.1.contains(&gone[0]) {
                                return Err(fail(
                                    "C08",
                                    "bad-replacement",
                                    format!(
                                        "offering {s:?} node {} removed {:?}; allowed: exactly one node of strictly lower standing from its bucket",
                                        hex(&h.0),
                                        gone.iter().map(|g| format!("{}:{:?}", hex(&g.0[..4]), before_set[g])).collect::<Vec<_>>()
                                    ),
                                ));
                            }
                        }
                        _ => {
                            stats.rejections += 1;
                            if !gone.is_empty() || !added.is_empty() {
                                return Err(fail(
                                    "C08",
                                    "change-on-rejection",
                                    format!(
                                        "offer of {s:?} node {} must be rejected (bucket full of equal or better nodes, cannot split) but membership changed: added {} gone {}",
                                        hex(&h.0),
                                        added.len(),
                                        gone.len()
                                    ),
                                ));
                            }
                        }
                    }
                    // adopt the real outcome
                    self.model.buckets = b_model;
                    for g in &gone {
                        self.model.contacts.retain(|c| c.h != *g);
                    }
                    if added.contains(h) {
                        self.model.contacts.retain(|c| c.h != *h);
                        self.model.contacts.push(Contact {
                            h: *h,
                            a: if good { Some(t) } else { None },
                            q: None,
                            u: 0,
                        });
                    }
                }
            }
        }

        // ---- invariants and status comparison on the real table, at the current instant
        self.sync_now();
        let t = self.now;
        let (real_buckets, real) = dump(&self.table);
        stats.max_buckets = stats.max_buckets.max(real_buckets);
        if real_buckets != self.model.buckets {
            return Err(fail("C08", "bucket-count", format!("table has {real_buckets} buckets, reference {}", self.model.buckets)));
        }
        let mut seen = HashSet::new();
        let mut per_bucket = vec![0usize; real_buckets];
        for n in &real {
            if n.h.0 == self.model.me {
                return Err(fail("C08", "own-id-listed", "the table lists the node's own id".into()));
            }
            if self.model.routers.contains(&n.h.1) {
                return Err(fail("C08", "router-listed", format!("the table lists router address {}", n.h.1)));
            }
            if !seen.insert(n.h) {
                return Err(fail("C08", "duplicate", format!("({}, {}) appears twice", hex(&n.h.0), n.h.1)));
            }
            let want = self.model.slot(&n.h.0, real_buckets);
            if n.bucket != want {
                return Err(fail(
                    "C08",
                    "wrong-bucket",
                    format!("node {} sits in bucket {} but shares {} prefix bits with the local id (bucket {want})", hex(&n.h.0), n.bucket, lcp(&self.model.me, &n.h.0)),
                ));
            }
            per_bucket[n.bucket] += 1;
        }
        if per_bucket.iter().any(|c| *c > BUCKET) {
            return Err(fail("C08", "bucket-overfull", "a bucket holds more than 8 live nodes".into()));
        }
        // membership and statuses equal the model's
        let model_live: BTreeMap<Handle, St> = self.model.live(t).iter().map(|c| (c.h, c.status(t))).collect();
        let real_live: BTreeMap<Handle, St> = real.iter().map(|n| (n.h, n.st)).collect();
        stats.status_checks += model_live.len().max(real_live.len()) as u64;
        if model_live != real_live {
            let diff: Vec<String> = model_live
                .iter()
                .filter(|(h, st)| real_live.get(*h) != Some(*st))
                .map(|(h, st)| format!("{}: reference {st:?}, table {:?}", hex(&h.0[..4]), real_live.get(h)))
                .chain(
                    real_live
                        .iter()
                        .filter(|(h, _)| !model_live.contains_key(*h))
                        .map(|(h, st)| format!("{}: reference absent/dropped, table {st:?}", hex(&h.0[..4]))),
                )
                .take(4)
                .collect();
            return Err(fail(
                "C10",
                "status-differs",
                format!("contact classification differs from the BEP5 timing rules after {:?}: {}", op.to_json().to_string(), diff.join("; ")),
            ));
        }
        // load_contacts must agree with the dump
        let (good, quest) = self.table.load_contacts();
        let want_good: HashSet<SocketAddr> = real.iter().filter(|n| n.st == St::Good).map(|n| n.h.1).collect();
        let want_q: HashSet<SocketAddr> = real.iter().filter(|n| n.st == St::Questionable).map(|n| n.h.1).collect();
        if good != want_good || quest != want_q {
            return Err(fail("C10", "load-contacts-differs", "load_contacts() disagrees with the per-node statuses".into()));
        }
        if stats.shapes.len() < 64 {
            let mut shape = format!("B{real_buckets}:");
            for b in 0..real_buckets {
                let g = real.iter().filter(|n| n.bucket == b && n.st == St::Good).count();
                let q = real.iter().filter(|n| n.bucket == b && n.st == St::Questionable).count();
                if g + q > 0 {
                    shape.push_str(&format!("{b}={g}g{q}q,"));
                }
            }
            stats.shapes.push(shape);
        }
        Ok(())
    }

    /// C09 at module level: enumerate the nearest nodes for `target`.
    pub fn check_closest(&mut self, target: &Id, step: usize, stats: &mut Stats) -> Result<(), Failure> {
        self.sync_now();
        let t = self.now;
        stats.closest_checks += 1;
        let fail = |sig: &str, what: String| Failure {
            prop: "C09",
            sig: sig.to_owned(),
            what,
            step,
        };
        let listed: Vec<(Handle, St)> = self
            .table
            .closest_nodes(InfoHash::from(*target))
            .map(|n| ((n.id().into(), n.addr()), n.status().into()))
            .collect();
        let live: BTreeMap<Handle, St> = self.model.live(t).iter().map(|c| (c.h, c.status(t))).collect();
        let mut seen = HashSet::new();
        for (h, st) in &listed {
            if *st == St::Bad || !live.contains_key(h) {
                return Err(fail("lists-dead-node", format!("nearest-node enumeration lists {} which is not a live table node", hex(&h.0))));
            }
            if !seen.insert(*h) {
                return Err(fail("lists-twice", format!("nearest-node enumeration visits {} twice", hex(&h.0))));
            }
        }
        if seen.len() != live.len() {
            let missing: Vec<String> = live.keys().filter(|h| !seen.contains(*h)).map(|h| hex(&h.0[..6])).take(4).collect();
            return Err(fail(
                "not-a-permutation",
                format!(
                    "nearest-node enumeration for target {} visited {} of {} live nodes; missing {:?} ({} buckets)",
                    hex(target),
                    seen.len(),
                    live.len(),
                    missing,
                    self.model.buckets
                ),
            ));
        }
        // every live node sharing a longer prefix with the target than the local id does must be
        // among the first 8
        let l = lcp(&self.model.me, target);
        let first8: HashSet<Handle> = listed.iter().take(8).map(|(h, _)| *h).collect();
        for h in live.keys() {
            if lcp(&h.0, target) > l && !first8.contains(h) {
                return Err(fail(
                    "closer-node-missing",
                    format!(
                        "node {} shares {} prefix bits with target {} (local id shares {l}) but is not among the first 8 enumerated",
                        hex(&h.0),
                        lcp(&h.0, target),
                        hex(target)
                    ),
                ));
            }
        }
        Ok(())
    }
}

#[derive(Clone, Copy, Debug, PartialEq, Eq)]
pub enum Focus {
    /// Shape / replacement: many offers, deep prefixes.
    Table,
    /// Status timing: few contacts, many events, clock steps around the 15-minute boundary.
    Status,
}

/// Generate a history. Ids are drawn by prefix length relative to the local id.
pub fn gen_history(rng: &mut ChaCha8Rng, me: &Id, routers: &HashSet<SocketAddr>, len: usize, focus: Focus) -> Vec<Op> {
    let mut ops = Vec::with_capacity(len);
    let mut pool: Vec<Handle> = Vec::new();
    let deep = rng.gen_bool(0.5);
    let few = focus == Focus::Status;
    let pool_cap = if few { rng.gen_range(1..12) } else { rng.gen_range(8..400) };
    let router_list: Vec<SocketAddr> = routers.iter().copied().collect();
    let new_handle = |rng: &mut ChaCha8Rng, pool: &Vec<Handle>| -> Handle {
        let id = match rng.gen_range(0..20) {
            0 => *me,
            1 => flip_bit(me, 159),
            2 => flip_bit(me, rng.gen_range(150..160)),
            3 if !pool.is_empty() => pool.choose(rng).unwrap().0, // same id, other address
            _ => {
                let prefix = if deep {
                    // heavy on long shared prefixes, so that the table grows many buckets
                    let r: f64 = rng.gen();
                    ((1.0 - r * r) * 159.0) as usize
                } else {
                    match rng.gen_range(0..3) {
                        0 => rng.gen_range(0..4),
                        1 => rng.gen_range(0..16),
                        _ => rng.gen_range(0..159),
                    }
                };
                gen::id_with_prefix(rng, me, prefix.min(158))
            }
        };
        let addr = match rng.gen_range(0..12) {
            0 if !router_list.is_empty() => *router_list.choose(rng).unwrap(),
            1 if !pool.is_empty() => pool.choose(rng).unwrap().1, // same address, other id
            _ => SocketAddr::new(std::net::Ipv4Addr::new(10, rng.gen(), rng.gen(), rng.gen()).into(), rng.gen_range(1..65535)),
        };
        (id, addr)
    };
    let advance = |rng: &mut ChaCha8Rng| -> Micros {
        match rng.gen_range(0..10) {
            0 => 0,
            1 => MS,
            2 => FIFTEEN_MIN - MS,
            3 => FIFTEEN_MIN,
            4 => FIFTEEN_MIN + MS,
            5 => rng.gen_range(0..40 * MIN),
            6 => rng.gen_range(14 * MIN..16 * MIN),
            7 => rng.gen_range(0..30 * SEC),
            _ => rng.gen_range(0..5 * MIN),
        }
    };
    for _ in 0..len {
        let r = rng.gen_range(0..100);
        let op = if pool.is_empty() || (pool.len() < pool_cap && r < if few { 10 } else { 45 }) {
            let h = new_handle(rng, &pool);
            pool.push(h);
            if rng.gen_bool(0.5) {
                Op::OfferGood(h)
            } else {
                Op::OfferHearsay(h)
            }
        } else {
            let h = *pool.choose(rng).unwrap();
            match r % if few { 10 } else { 14 } {
                0 | 1 => Op::OfferGood(h),
                2 => Op::OfferHearsay(h),
                3 | 4 => Op::LocalRequest(h),
                5 => Op::RemoteRequest(h),
                6 | 7 if few => Op::Advance(advance(rng)),
                6 => Op::Advance(advance(rng)),
                8 if few => Op::LocalRequest(h),
                9 if few => Op::Advance(advance(rng)),
                _ => {
                    if rng.gen_bool(0.5) {
                        Op::OfferGood(h)
                    } else {
                        Op::Advance(advance(rng))
                    }
                }
            }
        };
        ops.push(op);
    }
    ops
}

pub struct HistoryOutcome {
    pub failure: Option<Failure>,
    pub stats: Stats,
}

/// Run a whole history on a fresh table (must be called inside a paused tokio runtime).
pub async fn run_history(me: Id, routers: &HashSet<SocketAddr>, ops: &[Op], closest_every: usize, targets_seed: u64) -> HistoryOutcome {
    use rand::SeedableRng;
    let mut stats = Stats::default();
    let mut drv = Driver::new(me, routers.clone());
    let mut trng = ChaCha8Rng::seed_from_u64(targets_seed);
    for (i, op) in ops.iter().enumerate() {
        if let Err(f) = drv.step(op, i, &mut stats).await {
            return HistoryOutcome { failure: Some(f), stats };
        }
        if closest_every > 0 && (i + 1) % closest_every == 0 {
            let mut targets: Vec<Id> = vec![me, gen::rand_id(&mut trng), flip_bit(&me, trng.gen_range(0..160))];
            if let Some(c) = drv.model.contacts.choose(&mut trng) {
                targets.push(c.h.0);
                targets.push(flip_bit(&c.h.0, trng.gen_range(0..160)));
            }
            let prefix = trng.gen_range(0..159);
            targets.push(gen::id_with_prefix(&mut trng, &me, prefix));
            for target in targets {
                if let Err(f) = drv.check_closest(&target, i, &mut stats) {
                    return HistoryOutcome { failure: Some(f), stats };
                }
            }
        }
    }
    HistoryOutcome { failure: None, stats }
}

/// Greedy shrinking: drop chunks of operations while the same failure signature persists.
pub fn shrink(
    me: Id,
    routers: &HashSet<SocketAddr>,
    ops: Vec<Op>,
    sig: &str,
    closest_every: usize,
    targets_seed: u64,
    max_runs: usize,
) -> Vec<Op> {
    let mut ops = ops;
    let mut runs = 0;
    let mut chunk = (ops.len() / 2).max(1);
    while chunk >= 1 && runs < max_runs {
        let mut i = 0;
        let mut progress = false;
        while i < ops.len() && runs < max_runs {
            let end = (i + chunk).min(ops.len());
            let mut candidate = ops.clone();
            candidate.drain(i..end);
            runs += 1;
            let routers2 = routers.clone();
            let cand2 = candidate.clone();
            let out = crate::simnet::run_sim(move || async move { run_history(me, &routers2, &cand2, closest_every, targets_seed).await });
            if matches!(&out.failure, Some(f) if f.sig == sig) {
                ops = candidate;
                progress = true;
            } else {
                i = end;
            }
        }
        if chunk == 1 && !progress {
            break;
        }
        chunk = (chunk / 2).max(1);
        if chunk == 1 && !progress && runs > 0 {
            // one more pass at size 1 happens through the loop condition
        }
    }
    ops
}

pub fn merge_stats(report: &mut Report, s: &Stats) {
    report.add("table_operations", s.ops);
    report.add("bucket_splits", s.splits);
    report.add("replacements_of_worse_node", s.replacements);
    report.add("offers_rejected_full_bucket", s.rejections);
    report.add("admissions_into_free_or_bad_slot", s.admissions_free_slot);
    report.add("repeat_offers", s.repeats);
    report.add("offers_of_own_id_or_router", s.filtered);
    report.add("status_comparisons", s.status_checks);
    report.add("closest_enumerations_checked", s.closest_checks);
    report.add("contacts_that_became_bad", s.became_bad);
    report.maxi("most_buckets_reached", s.max_buckets as u64);
    for sh in &s.shapes {
        report.distinct(sh.clone());
    }
    for tr in &s.status_transitions {
        report.count(&format!("transition {tr}"));
    }
}
