//! Scenario runner: shards scenarios over threads, collects reports, watches for panics.

use crate::json::J;
use std::{
    collections::{BTreeMap, BTreeSet},
    panic,
    sync::{
        atomic::{AtomicBool, AtomicU64, Ordering},
        Arc, Mutex,
    },
    thread::ThreadId,
    time::Instant,
};

#[derive(Clone, Copy, Debug, PartialEq, Eq)]
pub enum Tier {
    Quick,
    Thorough,
}

impl Tier {
    pub fn name(self) -> &'static str {
        match self {
            Tier::Quick => "quick",
            Tier::Thorough => "thorough",
        }
    }
    pub fn pick<T>(self, quick: T, thorough: T) -> T {
        match self {
            Tier::Quick => quick,
            Tier::Thorough => thorough,
        }
    }
}

#[derive(Clone, Debug)]
pub struct Violation {
    /// Property the violated oracle belongs to.
    pub prop: String,
    /// Short machine-comparable signature (used for known findings).
    pub sig: String,
    pub what: String,
    /// Everything needed to look at / re-run the case.
    pub replay: J,
}

#[derive(Clone, Debug, Default)]
pub struct Report {
    pub evaluations: u64,
    pub distinct: BTreeSet<String>,
    pub counters: BTreeMap<String, u64>,
    pub samples: Vec<J>,
    pub violations: Vec<Violation>,
    /// Observations of always-on monitors that belong to other properties.
    pub cross: Vec<Violation>,
    pub inconclusive: Vec<String>,
    /// Panics observed inside node tasks / library code: (location, message).
    pub panics: Vec<(String, String)>,
    pub max: BTreeMap<String, u64>,
    /// Distinct cases counted numerically by the scenario itself (added to `distinct.len()`).
    pub distinct_extra: u64,
}

impl Report {
    pub fn count(&mut self, key: &str) {
        self.add(key, 1);
    }
    pub fn add(&mut self, key: &str, n: u64) {
        *self.counters.entry(key.to_owned()).or_default() += n;
    }
    pub fn maxi(&mut self, key: &str, v: u64) {
        let e = self.max.entry(key.to_owned()).or_default();
        *e = (*e).max(v);
    }
    pub fn get(&self, key: &str) -> u64 {
        self.counters.get(key).copied().unwrap_or(0)
    }
    pub fn distinct(&mut self, key: impl Into<String>) {
        if self.distinct.len() < 2_000_000 {
            self.distinct.insert(key.into());
        }
    }
    pub fn sample(&mut self, s: J) {
        if self.samples.len() < 4 {
            self.samples.push(s);
        }
    }
    pub fn violation(&mut self, prop: &str, sig: impl Into<String>, what: impl Into<String>, replay: J) {
        self.push_violation(Violation {
            prop: prop.to_owned(),
            sig: sig.into(),
            what: what.into(),
            replay,
        });
    }
    /// Keep at most 5 violations per (property, signature) and 300 in total, so that many
    /// occurrences of one finding cannot crowd out a different one.
    fn push_violation(&mut self, v: Violation) {
        let same = self
            .violations
            .iter()
            .filter(|o| o.prop == v.prop && o.sig == v.sig)
            .count();
        *self
            .counters
            .entry(format!("violations_seen[{}:{}]", v.prop, v.sig))
            .or_default() += 1;
        if same < 5 && self.violations.len() < 300 {
            self.violations.push(v);
        }
    }
    pub fn cross(&mut self, prop: &str, sig: impl Into<String>, what: impl Into<String>, replay: J) {
        if self.cross.len() < 50 {
            self.cross.push(Violation {
                prop: prop.to_owned(),
                sig: sig.into(),
                what: what.into(),
                replay,
            });
        }
    }
    pub fn merge(&mut self, other: Report) {
        self.evaluations += other.evaluations;
        self.distinct_extra += other.distinct_extra;
        for d in other.distinct {
            self.distinct(d);
        }
        for (k, v) in other.counters {
            *self.counters.entry(k).or_default() += v;
        }
        for (k, v) in other.max {
            self.maxi(&k, v);
        }
        for s in other.samples {
            self.sample(s);
        }
        for v in other.violations {
            let same = self
                .violations
                .iter()
                .filter(|o| o.prop == v.prop && o.sig == v.sig)
                .count();
            if same < 5 && self.violations.len() < 300 {
                self.violations.push(v);
            }
        }
        for v in other.cross {
            if self.cross.len() < 50 {
                self.cross.push(v);
            }
        }
        self.inconclusive.extend(other.inconclusive);
        self.panics.extend(other.panics);
    }
}

// ---------------------------------------------------------------------------------------------
// panic monitor

struct PanicRecord {
    thread: ThreadId,
    location: String,
    message: String,
}

static PANICS: Mutex<Vec<PanicRecord>> = Mutex::new(Vec::new());
static QUIET: AtomicBool = AtomicBool::new(true);

pub fn install_panic_monitor() {
    panic::set_hook(Box::new(|info| {
        let location = info
            .location()
            .map(|l| format!("{}:{}", l.file(), l.line()))
            .unwrap_or_else(|| "?".into());
        let message = if let Some(s) = info.payload().downcast_ref::<&str>() {
            (*s).to_owned()
        } else if let Some(s) = info.payload().downcast_ref::<String>() {
            s.clone()
        } else {
            "?".to_owned()
        };
        if !QUIET.load(Ordering::Relaxed) {
            eprintln!("panic at {location}: {message}");
        }
        if let Ok(mut panics) = PANICS.lock() {
            panics.push(PanicRecord {
                thread: std::thread::current().id(),
                location,
                message,
            });
        }
    }));
}

pub fn set_panic_quiet(q: bool) {
    QUIET.store(q, Ordering::Relaxed);
}

/// Take the panics recorded for the current thread.
pub fn take_panics() -> Vec<(String, String)> {
    let me = std::thread::current().id();
    let mut panics = PANICS.lock().unwrap();
    let mut mine = Vec::new();
    let mut i = 0;
    while i < panics.len() {
        if panics[i].thread == me {
            let p = panics.remove(i);
            mine.push((p.location, p.message));
        } else {
            i += 1;
        }
    }
    mine
}

/// Take the panics recorded on any thread since `since` entries ago (for scenarios that run their
/// own multi-threaded runtime, whose worker threads are not the scenario thread).
pub fn take_panics_of_threads(threads: &[ThreadId]) -> Vec<(String, String)> {
    let mut panics = PANICS.lock().unwrap();
    let mut out = Vec::new();
    let mut i = 0;
    while i < panics.len() {
        if threads.contains(&panics[i].thread) {
            let p = panics.remove(i);
            out.push((p.location, p.message));
        } else {
            i += 1;
        }
    }
    out
}

/// A panic location inside this harness (as opposed to btdht or a library it uses).
pub fn is_harness_location(loc: &str) -> bool {
    loc.starts_with("src/") || loc.contains("/verif/harness/")
}

// ---------------------------------------------------------------------------------------------

pub fn splitmix(mut x: u64) -> u64 {
    x = x.wrapping_add(0x9e37_79b9_7f4a_7c15);
    let mut z = x;
    z = (z ^ (z >> 30)).wrapping_mul(0xbf58_476d_1ce4_e5b9);
    z = (z ^ (z >> 27)).wrapping_mul(0x94d0_49bb_1331_11eb);
    z ^ (z >> 31)
}

pub fn scenario_seed(seed: u64, stream: u64, idx: u64) -> u64 {
    splitmix(splitmix(seed ^ splitmix(stream)) ^ idx)
}

pub struct RunCfg {
    pub threads: usize,
    /// Number of scenarios to run.
    pub count: u64,
    /// Stop handing out new scenarios after this much wall time (they still count as not run).
    pub wall_budget_s: f64,
    /// Minimum number that must have been run for the result not to be inconclusive.
    pub min_count: u64,
    /// Stack size of the simulation threads.
    pub stack: usize,
}

impl RunCfg {
    pub fn new(count: u64) -> RunCfg {
        RunCfg {
            threads: std::thread::available_parallelism()
                .map(|n| n.get())
                .unwrap_or(8)
                .min(16),
            count,
            wall_budget_s: 600.0,
            min_count: count,
            stack: 16 << 20,
        }
    }
    pub fn budget(mut self, s: f64, min_count: u64) -> RunCfg {
        self.wall_budget_s = s;
        self.min_count = min_count;
        self
    }
}

/// Run `scenario(idx)` for idx in 0..count on a pool of threads and merge the reports.
/// A panic inside the scenario closure itself (harness bug or a btdht panic propagating through a
/// direct call) is caught: harness-located panics make the run inconclusive, others are recorded
/// in `panics` for the caller to judge.
pub fn run_parallel<F>(cfg: RunCfg, scenario: F) -> Report
where
    F: Fn(u64) -> Report + Send + Sync + 'static,
{
    let scenario = Arc::new(scenario);
    let next = Arc::new(AtomicU64::new(0));
    let started = Instant::now();
    let merged = Arc::new(Mutex::new(Report::default()));
    let ran = Arc::new(AtomicU64::new(0));

    let mut handles = Vec::new();
    for _ in 0..cfg.threads.max(1) {
        let scenario = scenario.clone();
        let next = next.clone();
        let merged = merged.clone();
        let ran = ran.clone();
        let count = cfg.count;
        let budget = cfg.wall_budget_s;
        let handle = std::thread::Builder::new()
            .stack_size(cfg.stack)
            .spawn(move || {
                let mut local = Report::default();
                loop {
                    if started.elapsed().as_secs_f64() > budget {
                        break;
                    }
                    let idx = next.fetch_add(1, Ordering::Relaxed);
                    if idx >= count {
                        break;
                    }
                    let result = panic::catch_unwind(panic::AssertUnwindSafe(|| scenario(idx)));
                    let panics = take_panics();
                    match result {
                        Ok(mut report) => {
                            for (loc, msg) in panics {
                                if is_harness_location(&loc) {
                                    report
                                        .inconclusive
                                        .push(format!("harness panic at {loc}: {msg} (scenario {idx})"));
                                } else {
                                    report.panics.push((loc, format!("{msg} (scenario {idx})")));
                                }
                            }
                            local.merge(report);
                        }
                        Err(_) => {
                            for (loc, msg) in panics {
                                if is_harness_location(&loc) {
                                    local
                                        .inconclusive
                                        .push(format!("harness panic at {loc}: {msg} (scenario {idx})"));
                                } else {
                                    local.panics.push((loc, format!("{msg} (scenario {idx}, escaped)")));
                                }
                            }
                        }
                    }
                    ran.fetch_add(1, Ordering::Relaxed);
                    if local.distinct.len() > 20_000 || local.samples.len() >= 4 {
                        merged.lock().unwrap().merge(std::mem::take(&mut local));
                    }
                }
                merged.lock().unwrap().merge(local);
            })
            .expect("spawn");
        handles.push(handle);
    }
    for h in handles {
        let _ = h.join();
    }

    let mut report = std::mem::take(&mut *merged.lock().unwrap());
    let ran = ran.load(Ordering::Relaxed);
    report.add("scenarios_run", ran);
    if ran < cfg.min_count {
        report.inconclusive.push(format!(
            "only {ran} of the required {} scenarios ran within the wall budget of {} s",
            cfg.min_count, cfg.wall_budget_s
        ));
    }
    report
}

// ---------------------------------------------------------------------------------------------
// Report <-> JSON (used between supervised worker processes and their parent)

fn violation_to_json(v: &Violation) -> J {
    J::obj()
        .with("prop", v.prop.as_str())
        .with("sig", v.sig.as_str())
        .with("what", v.what.as_str())
        .with("replay", v.replay.clone())
}

fn violation_from_json(j: &J) -> Option<Violation> {
    Some(Violation {
        prop: j.get("prop")?.as_str()?.to_owned(),
        sig: j.get("sig")?.as_str()?.to_owned(),
        what: j.get("what")?.as_str()?.to_owned(),
        replay: j.get("replay")?.clone(),
    })
}

impl Report {
    pub fn to_json(&self) -> J {
        let mut counters = J::obj();
        for (k, v) in &self.counters {
            counters.set(k, *v);
        }
        let mut max = J::obj();
        for (k, v) in &self.max {
            max.set(k, *v);
        }
        J::obj()
            .with("evaluations", self.evaluations)
            .with("distinct_extra", self.distinct_extra)
            .with(
                "distinct",
                J::Arr(self.distinct.iter().map(|s| J::s(s.as_str())).collect()),
            )
            .with("counters", counters)
            .with("max", max)
            .with("samples", J::Arr(self.samples.clone()))
            .with(
                "violations",
                J::Arr(self.violations.iter().map(violation_to_json).collect()),
            )
            .with("cross", J::Arr(self.cross.iter().map(violation_to_json).collect()))
            .with(
                "inconclusive",
                J::Arr(self.inconclusive.iter().map(|s| J::s(s.as_str())).collect()),
            )
            .with(
                "panics",
                J::Arr(
                    self.panics
                        .iter()
                        .map(|(l, m)| J::Arr(vec![J::s(l.as_str()), J::s(m.as_str())]))
                        .collect(),
                ),
            )
    }

    pub fn from_json(j: &J) -> Option<Report> {
        let mut r = Report {
            evaluations: j.get("evaluations")?.as_i64()? as u64,
            distinct_extra: j.get("distinct_extra")?.as_i64()? as u64,
            ..Default::default()
        };
        for d in j.get("distinct")?.as_arr()? {
            r.distinct.insert(d.as_str()?.to_owned());
        }
        for (k, v) in j.get("counters")?.as_obj()? {
            r.counters.insert(k.clone(), v.as_i64()? as u64);
        }
        for (k, v) in j.get("max")?.as_obj()? {
            r.max.insert(k.clone(), v.as_i64()? as u64);
        }
        r.samples = j.get("samples")?.as_arr()?.to_vec();
        for v in j.get("violations")?.as_arr()? {
            r.violations.push(violation_from_json(v)?);
        }
        for v in j.get("cross")?.as_arr()? {
            r.cross.push(violation_from_json(v)?);
        }
        for s in j.get("inconclusive")?.as_arr()? {
            r.inconclusive.push(s.as_str()?.to_owned());
        }
        for p in j.get("panics")?.as_arr()? {
            let p = p.as_arr()?;
            r.panics
                .push((p.first()?.as_str()?.to_owned(), p.get(1)?.as_str()?.to_owned()));
        }
        Some(r)
    }
}
