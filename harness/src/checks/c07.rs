//! C07 — peer store: exact, duplicate-free, 24-hour, capacity-bounded answers.

use super::{c0607, Check, Stream};
use crate::runner::Tier;

pub fn check(tier: Tier) -> Check {
    Check {
        id: "C07",
        level: "exploration",
        rule: "Stream store-module: histories of 50..4000 operations on the real AnnounceStorage (announce a \
               pair drawn from 1..300 info-hashes x 3..2000 addresses of both families, look an info-hash up, \
               advance the virtual clock: around 12 h / 24 h +-1 ms, to the exact expiry instant of the oldest \
               pair, hours, minutes). Stream handler: histories of 200..6000 operations through a real node \
               (every announce needs a valid token, so get_peers and announce_peer interleave; explicit and \
               implied ports; bursts crossing 500 pairs on 1..3 info-hashes; horizons of several virtual days). \
               Reference model: map (info-hash, contact address) -> time of last successful announce; live = \
               age < 24 h; a new pair is accepted iff fewer than 500 are live; contact address = source IP + \
               explicit port, or the source port if implied. After every operation: accept/refuse (ack vs \
               202) as the model says, values == the model's live set for (info-hash, requester family), no \
               duplicates. distinct_nontrivial = distinct (info-hashes, addresses, length) classes (module) \
               and (token kind, band, outcome, port mode) classes (handler).",
        assumptions: vec!["oversize replies are read by the scripted client without a size limit (their size is C17's business)"],
        deciding: vec!["C07"],
        streams: vec![
            Stream::new("store-module", tier.pick(32, 320), c0607::store_module),
            Stream::new("handler", tier.pick(96, 3200), |ctx, idx| c0607::handler_history(ctx, idx, "C07")).budget(tier.pick(900.0, 3000.0), tier.pick(96, 1600)),
        ],
        require: vec![
            ("announces_accepted", tier.pick(100_000, 5_000_000)),
            ("announces_refused_full", tier.pick(5_000, 200_000)),
            ("renewals", tier.pick(10_000, 500_000)),
            ("renewals_while_full", tier.pick(20, 2_000)),
            ("lookups_compared", tier.pick(50_000, 2_000_000)),
            ("pairs_expired", tier.pick(20_000, 1_000_000)),
            ("expiry_freed_capacity", tier.pick(3, 300)),
        ],
        exhaustive: false,
    }
}
