//! C08 — routing table keeps its shape; a node is only traded for a strictly better one.
//! C09 / C10 module-level parts use the same driver (see tabledrv.rs).

use super::{replay_info, sseed, Check, Ctx, Stream};
use crate::gen;
use crate::json::{hex, J};
use crate::runner::{Report, Tier};
use crate::simnet::run_sim;
use crate::tabledrv::{self, Focus, Op};
use rand::{Rng, SeedableRng};
use rand_chacha::ChaCha8Rng;
use std::collections::HashSet;
use std::net::SocketAddr;

pub fn history_scenario(
    ctx: &Ctx,
    idx: u64,
    check: &'static str,
    stream: &'static str,
    focus: Focus,
    closest_every: usize,
) -> Report {
    let mut report = Report::default();
    let seed = sseed(ctx, stream, idx);
    let mut rng = ChaCha8Rng::seed_from_u64(seed);
    let histories = ctx.tier.pick(20, 200);
    for hno in 0..histories {
        let me = gen::rand_id(&mut rng);
        let mut routers: HashSet<SocketAddr> = HashSet::new();
        for _ in 0..rng.gen_range(0..3) {
            routers.insert(SocketAddr::new(std::net::Ipv4Addr::new(9, 9, 9, rng.gen()).into(), 6881));
        }
        let len = match rng.gen_range(0..4) {
            0 => rng.gen_range(10..60),
            1 => rng.gen_range(60..400),
            _ => rng.gen_range(400..2000),
        };
        let ops = tabledrv::gen_history(&mut rng, &me, &routers, len, focus);
        let tseed = rng.gen();
        let (routers2, ops2) = (routers.clone(), ops.clone());
        let out = run_sim(move || async move { tabledrv::run_history(me, &routers2, &ops2, closest_every, tseed).await });
        report.evaluations += 1;
        tabledrv::merge_stats(&mut report, &out.stats);
        if let Some(f) = out.failure {
            // keep only the prefix up to the failing step, then shrink
            let prefix: Vec<Op> = ops[..=f.step.min(ops.len() - 1)].to_vec();
            let small = tabledrv::shrink(me, &routers, prefix, &f.sig, closest_every, tseed, 400);
            report.violation(
                f.prop,
                f.sig.clone(),
                format!("{} (history of {} operations, shrunk to {})", f.what, f.step + 1, small.len()),
                replay_info(check, stream, ctx, idx)
                    .with("history_no", hno as u64)
                    .with("local_id", hex(&me))
                    .with("routers", routers.iter().map(|r| J::s(r.to_string())).collect::<Vec<_>>())
                    .with("shrunk_history", small.iter().take(60).map(Op::to_json).collect::<Vec<_>>()),
            );
            break;
        }
        if idx == 0 && hno < 2 {
            report.sample(
                J::obj()
                    .with("local_id", hex(&me))
                    .with("operations", ops.len())
                    .with("first_operations", ops.iter().take(6).map(Op::to_json).collect::<Vec<_>>())
                    .with("buckets_reached", out.stats.max_buckets)
                    .with("splits", out.stats.splits)
                    .with("replacements", out.stats.replacements),
            );
        }
    }
    report
}

pub fn check(tier: Tier) -> Check {
    Check {
        id: "C08",
        level: "exploration",
        rule: "Operation histories of 10..2000 steps on the real RoutingTable (re-exported under the verif \
               feature): offer as responder (good) / as hearsay (questionable), repeats of present nodes, query \
               sent, query received, clock advances of 0..40 min concentrated around 15 min; ids drawn by \
               prefix length relative to the local id (heavy on deep prefixes, last-bit differences, the local \
               id itself), several nodes per address and per id, 0..2 router addresses. After every operation \
               the table is dumped and compared with an executable reference (transition relation of the \
               statement: admit into a free/bad slot without losing anyone; else replace exactly one node of \
               strictly lower standing; else split only the bucket covering the local id; else reject) plus \
               the shape invariants (own id, router, bad, duplicate, bucket index, <= 8 per bucket, bucket \
               count). Failing histories are shrunk. distinct_nontrivial = distinct table shapes (bucket \
               count and per-bucket good/questionable occupancy) reached.",
        assumptions: vec![
            "router addresses are fixed before the first offer (as in the node, where routers are resolved before any contact is made)",
            "statuses are evaluated at the same virtual instant before and after an operation",
        ],
        deciding: vec!["C08"],
        streams: vec![Stream::new("histories", tier.pick(64, 640), |ctx, idx| {
            history_scenario(ctx, idx, "C08", "histories", Focus::Table, 0)
        })
        .budget(tier.pick(900.0, 3000.0), tier.pick(64, 320))],
        require: vec![
            ("table_operations", tier.pick(500_000, 50_000_000)),
            ("bucket_splits", tier.pick(2_000, 200_000)),
            ("replacements_of_worse_node", tier.pick(2_000, 200_000)),
            ("offers_rejected_full_bucket", tier.pick(2_000, 200_000)),
            ("admissions_into_free_or_bad_slot", tier.pick(20_000, 2_000_000)),
            ("offers_of_own_id_or_router", tier.pick(500, 50_000)),
        ],
        exhaustive: false,
    }
}
