//! C12 — the routing table cannot be filled by parties the node did not ask.

use super::{replay_info, sseed, Check, Ctx, Stream};
use crate::bed::{node_addr, world_addr, world_ids};
use crate::gen;
use crate::json::{hex, J};
use crate::refcodec::{Id, Krpc, Query, Reply};
use crate::runner::{Report, Tier};
use crate::simnet::{run_sim, settle, sleep_us, v4, v6, Ev, Link, Micros, Net, MS, SEC};
use crate::tabledrv::dump;
use crate::wiremon;
use crate::world::{run_search, spawn_node, NodeCfg, WNode, World};
use rand::seq::SliceRandom;
use rand::{Rng, SeedableRng};
use rand_chacha::ChaCha8Rng;
use std::collections::{HashMap, HashSet};
use std::net::SocketAddr;
use std::time::Duration;

fn poison_addr(is_v6: bool, n: u32) -> SocketAddr {
    if is_v6 {
        v6(0x66, n as u64 + 1, 6000 + (n % 1000) as u16)
    } else {
        v4(55, (n >> 16) as u8, (n >> 8) as u8, n as u8, 6000 + (n % 1000) as u16)
    }
}

fn scenario(ctx: &Ctx, idx: u64) -> Report {
    let ctx = *ctx;
    run_sim(move || async move {
        let mut report = Report::default();
        let seed = sseed(&ctx, "unsolicited", idx);
        let mut rng = ChaCha8Rng::seed_from_u64(seed);
        let info = replay_info("C12", "unsolicited", &ctx, idx);
        let net = Net::new(seed);
        let is_v6 = rng.gen_bool(0.3);
        let addr = node_addr(is_v6, 1);
        let id = gen::rand_id(&mut rng);
        let serving = rng.gen_bool(0.6);
        let use_routers = rng.gen_bool(0.4);
        let world_size = if use_routers { rng.gen_range(30..80) } else { rng.gen_range(3..60) };
        let ids = world_ids(&mut rng, world_size, &id, 0.3);
        let nodes: Vec<WNode> = ids
            .into_iter()
            .enumerate()
            .map(|(i, wid)| {
                let mut n = WNode::new(wid, world_addr(is_v6, i as u32));
                n.peers = 1;
                n
            })
            .collect();
        let routers: Vec<SocketAddr> = if use_routers { nodes.iter().take(2).map(|n| n.addr).collect() } else { vec![] };
        let contacts: Vec<SocketAddr> = nodes.iter().skip(2).take(rng.gen_range(1..6)).map(|n| n.addr).collect();
        let owned: HashSet<SocketAddr> = nodes.iter().map(|n| n.addr).collect();
        let world_id_list: Vec<Id> = nodes.iter().map(|n| n.id).collect();
        let mut world = World::new(nodes);
        world.keep_served = false;
        // names that responding nodes add to every list: ghosts, the node's own id, the routers
        let ghosts: Vec<(Id, SocketAddr)> = (0..rng.gen_range(0..5)).map(|i| (gen::rand_id(&mut rng), poison_addr(is_v6, 900_000 + i))).collect();
        let own_id_addr = poison_addr(is_v6, 950_000);
        let mut extras = ghosts.clone();
        extras.push((id, own_id_addr));
        for r in &routers {
            extras.push((gen::rand_id(&mut rng), *r));
        }
        if rng.gen_bool(0.5) {
            extras.push(extras[0]); // duplicates
        }
        world.extra_names = extras;
        net.add_actor(move |a| owned.contains(a), world);
        let mut link = Link::uniform(MS, 80 * MS);
        link.dup_p = *[0.0, 0.0, 0.2].choose(&mut rng).unwrap();
        net.set_link(link);

        let mut cfg = NodeCfg::new(addr);
        cfg.id = Some(id);
        cfg.read_only = !serving;
        cfg.nodes = contacts;
        cfg.routers = routers.iter().map(|r| r.to_string()).collect();
        // a router address given as plain node as well is still a router: never a contact
        if use_routers && rng.gen_bool(0.5) {
            cfg.nodes.push(routers[rng.gen_range(0..routers.len())]);
            report.count("configs_with_a_router_also_given_as_node");
        }
        let dht = spawn_node(&net, &cfg);
        if rng.gen_bool(0.3) {
            crate::world::api_hammer(&net, &dht, addr, seed, 0.05, 20_000);
        }
        report.evaluations += 1;

        // ---- injections throughout the node's life: bootstrapping, idle, searching
        let mut poison_senders: HashSet<SocketAddr> = HashSet::new();
        let mut poison_names: HashMap<SocketAddr, Id> = HashMap::new();
        let mut forged_values: HashSet<SocketAddr> = HashSet::new();
        let mut n_poison = 0u32;
        let mut search_items: Vec<SocketAddr> = Vec::new();
        let total_steps = ctx.tier.pick(120, 300);
        let mut search_task: Option<tokio::task::JoinHandle<crate::world::SearchResult>> = None;
        for step in 0..total_steps {
            // phases: 0..1/3 while bootstrapping, then idle, then while searching
            let phase = step * 3 / total_steps;
            if phase == 2 && search_task.as_ref().map(|t| t.is_finished()).unwrap_or(true) {
                if let Some(t) = search_task.take() {
                    if let Ok(r) = t.await {
                        search_items.extend(r.items.iter().map(|(_, a)| *a));
                        report.count("searches_during_injection");
                    }
                }
                let (net2, dht2, ih) = (net.clone(), dht.clone(), gen::rand_id(&mut rng));
                search_task = Some(tokio::spawn(async move { run_search(&net2, &dht2, ih, false, Duration::from_secs(120)).await }));
            }
            n_poison += 1;
            let sender = poison_addr(is_v6, n_poison);
            let kind = rng.gen_range(0..10);
            let bytes = if kind < 5 {
                // a query from somebody the node never contacted
                poison_senders.insert(sender);
                report.count("unsolicited_queries");
                let q = match kind {
                    0 => Query::Ping,
                    1 | 2 => Query::FindNode { target: gen::id(&mut rng), want: gen::want(&mut rng) },
                    3 => Query::GetPeers { info_hash: gen::id(&mut rng), want: None },
                    _ => Query::AnnouncePeer { info_hash: gen::id(&mut rng), port: None, token: gen::bytes(&mut rng, 20) },
                };
                // the id the stranger claims: usually fresh, sometimes the id of a node this node knows
                // only by hearsay (a ghost that never answers), of a responsive contact, or its own id
                let claimed = match rng.gen_range(0..10) {
                    0..=2 if !ghosts.is_empty() => {
                        report.count("unsolicited_queries_claiming_a_hearsay_id");
                        ghosts.choose(&mut rng).unwrap().0
                    }
                    3 => {
                        report.count("unsolicited_queries_claiming_a_contact_id");
                        world_id_list.choose(&mut rng).copied().unwrap_or(id)
                    }
                    4 => id,
                    _ => gen::rand_id(&mut rng),
                };
                // A stranger that plays by the rules: asks get_peers first and announces with the token
                // it was given (valid for its address). The announce is accepted - and still must not
                // make the stranger a contact.
                if serving && matches!(q, Query::AnnouncePeer { .. }) && rng.gen_bool(0.6) {
                    let ih = gen::id(&mut rng);
                    let mark = net.log_len();
                    net.send_from_after(sender, addr, Krpc::query(gen::tid(&mut rng), claimed, Query::GetPeers { info_hash: ih, want: None }).encode(), MS);
                    sleep_us(3 * MS).await;
                    let token = net
                        .log_since(mark)
                        .iter()
                        .filter(|w| w.ev == Ev::Send && w.src == addr && w.dst == sender)
                        .filter_map(|w| Krpc::parse(&w.data).ok())
                        .find_map(|k| k.as_reply().and_then(|r| r.token.clone()));
                    if let Some(token) = token {
                        report.count("strangers_announcing_with_a_valid_token");
                        Krpc::query(gen::tid(&mut rng), claimed, Query::AnnouncePeer { info_hash: ih, port: if rng.gen_bool(0.5) { None } else { Some(gen::port(&mut rng)) }, token }).encode()
                    } else {
                        Krpc::query(gen::tid(&mut rng), claimed, q).encode()
                    }
                } else {
                    Krpc::query(gen::tid(&mut rng), claimed, q).encode()
                }
            } else {
                // a response whose transaction id cannot derive from any request of this node
                poison_senders.insert(sender);
                // transaction ids the node itself used most recently (searches, refresh, bootstrap)
                let live: Vec<Vec<u8>> = net
                    .log()
                    .iter()
                    .rev()
                    .filter(|w| w.ev == Ev::Send && w.src == addr)
                    .take(40)
                    .filter_map(|w| Krpc::parse(&w.data).ok())
                    .filter(|k| k.is_query() && k.t.len() == 8)
                    .map(|k| k.t)
                    .collect();
                let tid = if !live.is_empty() && rng.gen_bool(0.4) {
                    // a live id made too long or too short: still "wrong length", must be ignored
                    let mut t = live.choose(&mut rng).unwrap().clone();
                    match rng.gen_range(0..3) {
                        0 => t.push(rng.gen()),
                        1 => t.extend_from_slice(&[0u8; 8]),
                        _ => {
                            t.pop();
                        }
                    }
                    report.count("responses_with_live_id_of_wrong_length");
                    t
                } else if rng.gen_bool(0.5) {
                    let len = loop {
                        let l = rng.gen_range(0..=32);
                        if l != 8 {
                            break l;
                        }
                    };
                    report.count("responses_with_wrong_tid_length");
                    gen::bytes(&mut rng, len)
                } else {
                    // 8 bytes, activity prefix >= 2^32 (the node hands prefixes out from 0 upwards)
                    let mut t = [0u8; 8];
                    rng.fill(&mut t);
                    t[0] = rng.gen_range(1..=255);
                    report.count("responses_with_never_used_prefix");
                    t.to_vec()
                };
                let mut r = Reply {
                    id: gen::rand_id(&mut rng),
                    token: Some(b"xx".to_vec()),
                    ..Default::default()
                };
                let names = *[0usize, 1, 8, 30, 50].choose(&mut rng).unwrap();
                let mut list = Vec::new();
                for _ in 0..names {
                    n_poison += 1;
                    let a = poison_addr(is_v6, n_poison);
                    let nid = gen::rand_id(&mut rng);
                    poison_names.insert(a, nid);
                    list.push((nid, a));
                }
                if is_v6 {
                    r.nodes6 = list;
                } else {
                    r.nodes = list;
                }
                for j in 0..rng.gen_range(0..3) {
                    let v = if is_v6 { v6(0x67, n_poison as u64 * 4 + j, 666) } else { v4(241, (n_poison >> 8) as u8, n_poison as u8, j as u8, 666) };
                    forged_values.insert(v);
                    r.values.push(v);
                }
                Krpc::reply(tid, r).encode()
            };
            net.send_from_after(sender, addr, bytes, rng.gen_range(0..20 * MS));
            sleep_us(rng.gen_range(10 * MS..400 * MS)).await;

            // ---- sample the contacts
            if step % 4 == 3 || step + 1 == total_steps {
                let Some(Ok((good, quest))) = crate::world::within(Duration::from_secs(1), dht.load_contacts()).await else {
                    report.cross("C15", "api-dead", "load_contacts() does not complete", info.clone());
                    break;
                };
                report.count("contact_samples");
                let log = net.log();
                let heard_from: HashSet<SocketAddr> = log
                    .iter()
                    .filter(|w| w.ev == Ev::Deliver && w.dst == addr)
                    .map(|w| w.src)
                    .collect();
                let mut bad = |sig: &str, what: String| {
                    report.violation("C12", sig, what, info.clone().with("step", step as u64).with("phase", phase as u64));
                };
                for a in good.iter().chain(quest.iter()) {
                    if poison_senders.contains(a) {
                        bad("unsolicited-sender-admitted", format!("{a}, which only ever sent the node an unsolicited query / a response with an impossible transaction id, is among its contacts"));
                    }
                    if poison_names.contains_key(a) {
                        bad("name-from-impossible-response-admitted", format!("{a} was only named inside a response whose transaction id cannot derive from a request of this node, yet it is among the contacts"));
                    }
                    if routers.contains(a) {
                        bad("router-admitted", format!("router address {a} is among the contacts"));
                    }
                    if *a == own_id_addr {
                        bad("own-id-admitted", format!("address {a}, named together with the node's own id, is among the contacts"));
                    }
                }
                for a in &good {
                    if !heard_from.contains(a) {
                        bad("good-without-contact", format!("{a} is reported good although no datagram from it was ever delivered to the node (merely named by others)"));
                    }
                }
                let ghosts_q = ghosts.iter().filter(|(_, gaddr)| quest.contains(gaddr)).count() as u64;
                // the table itself (hook registry): ids of poison names / own id must not be there
                if let Some((_, table)) = btdht::verif::tables().iter().find(|(tid, _)| <[u8; 20]>::from(*tid) == id) {
                    let t = table.lock().unwrap();
                    for n in dump(&t).1 {
                        if n.h.0 == id {
                            bad("own-id-admitted", "the node's own id is in its routing table".into());
                        }
                        if poison_names.get(&n.h.1) == Some(&n.h.0) {
                            bad("name-from-impossible-response-admitted", format!("node {} named by an impossible response is in the routing table", hex(&n.h.0[..6])));
                        }
                    }
                }
                report.add("ghosts_admitted_as_questionable", ghosts_q);
            }
        }
        if let Some(t) = search_task.take() {
            if let Ok(Ok(r)) = tokio::time::timeout(Duration::from_secs(200), t).await {
                search_items.extend(r.items.iter().map(|(_, a)| *a));
                report.count("searches_during_injection");
            }
        }
        settle().await;
        for v in &search_items {
            if forged_values.contains(v) {
                report.violation(
                    "C12",
                    "search-result-from-impossible-response",
                    format!("a search yielded {v}, which was only contained in a response whose transaction id cannot derive from a request of this node"),
                    info.clone(),
                );
            }
        }
        report.add("search_items_checked", search_items.len() as u64);
        report.distinct(format!("serving{serving}/routers{use_routers}/world{}/ghosts{}", world_size / 10, ghosts.len()));
        if idx < 2 {
            report.sample(
                J::obj()
                    .with("serving", serving)
                    .with("routers", routers.iter().map(|r| J::s(r.to_string())).collect::<Vec<_>>())
                    .with("world", world_size)
                    .with("unsolicited_senders", poison_senders.len())
                    .with("names_in_impossible_responses", poison_names.len())
                    .with("ghost_names", ghosts.len()),
            );
        }
        wiremon::always_on(&mut report, &net, &[addr], &info);
        let _ = (Micros::MAX, SEC, Net::new);
        report
    })
}

pub fn check(tier: Tier) -> Check {
    Check {
        id: "C12",
        level: "exploration",
        rule: "A real node (serving or read-only, with or without routers, 1..5 contacts in a world of 3..80 \
               scripted nodes whose answers additionally name ghosts, the node's own id at a foreign address, the \
               router addresses and duplicates) receives 120 (quick) / 300 (thorough) unsolicited datagrams \
               spread over its life (while bootstrapping, idle, while searching), each from a fresh address: \
               queries of all four kinds (announce_peer also with a valid token obtained by a preceding get_peers; claiming a fresh id, the id of a node known only by hearsay, of a responsive contact, or the node's own id), and responses whose transaction id has a length other than 8 (random, \
               or one of the node's own live ids lengthened / shortened) or an activity prefix >= 2^32, naming 0..50 fresh nodes and carrying fresh peer values. Every 4th \
               step load_contacts() and the hook registry dump are read: no unsolicited sender, no name from \
               an impossible response, no router address, not the own id; every address reported good must have \
               had a datagram delivered to the node; search streams must not yield values of impossible \
               responses. distinct_nontrivial = distinct (serving, routers, world size class, ghosts).",
        assumptions: vec![
            "forged responses that reuse a live activity prefix are outside this property's wording (searches: C03)",
            "the node allocates activity prefixes sequentially from 0, so prefixes >= 2^32 were certainly never used",
        ],
        deciding: vec!["C12"],
        streams: vec![Stream::new("unsolicited", tier.pick(1_200, 4000), scenario)],
        require: vec![
            ("unsolicited_queries", tier.pick(48_000, 400_000)),
            ("unsolicited_queries_claiming_a_hearsay_id", tier.pick(6_000, 50_000)),
            ("strangers_announcing_with_a_valid_token", tier.pick(1_800, 15_000)),
            ("configs_with_a_router_also_given_as_node", tier.pick(60, 200)),
            ("responses_with_wrong_tid_length", tier.pick(18_000, 150_000)),
            ("responses_with_never_used_prefix", tier.pick(18_000, 150_000)),
            ("responses_with_live_id_of_wrong_length", tier.pick(12_000, 100_000)),
            ("contact_samples", tier.pick(24_000, 200_000)),
            ("searches_during_injection", tier.pick(1_200, 4_000)),
        ],
        exhaustive: false,
    }
}
