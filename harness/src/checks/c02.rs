//! C02 — a search reaches the 8 closest nodes, announces to them, yields every peer found.

use super::{replay_info, sseed, Check, Ctx, Stream};
use crate::gen;
use crate::json::hex;
use crate::refcodec::{Id, Krpc};
use crate::runner::{Report, Tier};
use crate::searchbed::{SearchBed, SearchBedOpts};
use crate::searchmon::{self, Oracle, SearchSpec};
use crate::simnet::{run_sim, settle, Ev, Link, MS, SEC};
use crate::wiremon;
use crate::world::run_search;
use rand::seq::SliceRandom;
use rand::{Rng, SeedableRng};
use rand_chacha::ChaCha8Rng;
use std::collections::{HashMap, HashSet};
use std::net::SocketAddr;
use std::time::Duration;

fn scenario(ctx: &Ctx, idx: u64) -> Report {
    let ctx = *ctx;
    run_sim(move || async move {
        let mut report = Report::default();
        let seed = sseed(&ctx, "omniscient", idx);
        let mut rng = ChaCha8Rng::seed_from_u64(seed);
        let info = replay_info("C02", "omniscient", &ctx, idx);
        let target: Id = gen::rand_id(&mut rng);
        let opts = SearchBedOpts::random(&mut rng, ctx.tier.pick(300, 1000));
        let bed = SearchBed::new(seed, &mut rng, opts.clone(), &target).await;
        report.evaluations += 1;
        if !bed.bootstrapped {
            report.count("precondition_miss_not_bootstrapped");
            return report;
        }

        // latency profile for the searches: RTT stays below one second
        let one_way = *[5 * MS, 60 * MS, 250 * MS, 450 * MS].choose(&mut rng).unwrap();
        bed.net.set_link(Link::uniform(0, one_way));

        let n_searches = rng.gen_range(1..=4);
        for s in 0..n_searches {
            // later searches: the same target again (the table now also holds the nodes the first
            // search was told about but never heard from), a neighbour of it, or a fresh one
            let ih = if s == 0 {
                target
            } else {
                match rng.gen_range(0..10) {
                    0..=4 => {
                        report.count("repeated_searches_for_the_same_target");
                        target
                    }
                    5 | 6 => {
                        let mut t = target;
                        t[19] ^= rng.gen::<u8>();
                        t[18] ^= rng.gen::<u8>() & 0x0f;
                        t
                    }
                    _ => gen::rand_id(&mut rng),
                }
            };
            let announce = rng.gen_bool(0.85);
            // idle time before a later search: none, or long enough for table entries to age past
            // 15 minutes (the refresh re-pings them bucket by bucket, so the table is in a mixed state)
            if s > 0 {
                let gap = match rng.gen_range(0..6) {
                    0 | 1 => 0,
                    2 => rng.gen_range(0..60 * SEC),
                    3 => 15 * 60 * SEC + rng.gen_range(0..120 * SEC),
                    4 => rng.gen_range(14 * 60 * SEC..17 * 60 * SEC),
                    _ => rng.gen_range(0..40 * 60 * SEC),
                };
                if gap > 0 {
                    crate::simnet::sleep_us(gap).await;
                }
                if gap >= 14 * 60 * SEC {
                    report.count("searches_after_an_idle_period_of_15_minutes_or_more");
                }
            }
            // a node without a single good contact does not search at all (C04); not this property's case
            match crate::world::within(Duration::from_secs(2), bed.dht.get_state()).await {
                Some(Some(st)) if st.good_node_count > 0 => {}
                _ => {
                    report.count("precondition_miss_no_good_contact");
                    continue;
                }
            }
            let repeat = rng.gen_bool(0.4);
            bed.world.lock().unwrap().repeat_values = repeat;
            if repeat {
                report.count("searches_with_values_repeated_within_one_answer");
            }
            let served_mark = bed.world.lock().unwrap().served.len();
            let log_mark = bed.net.log_len();
            let result = run_search(&bed.net, &bed.dht, ih, announce, Duration::from_secs(400)).await;
            settle().await;
            let log = bed.net.log_since(log_mark);
            let spec = SearchSpec {
                node: bed.addr,
                node_id: bed.id,
                v6: bed.v6,
                info_hash: ih,
                announce,
                announce_port: opts.announce_port,
                result: &result,
            };
            let mut sh = searchmon::shadow(&log, &spec);
            report.count("searches");
            report.distinct(format!(
                "world{}/{:?}/lat{}/ro{}/port{}/self{}/announce{}",
                match opts.world_size {
                    1 => "1".to_owned(),
                    2..=7 => "2-7".to_owned(),
                    8 => "8".to_owned(),
                    9..=30 => "9-30".to_owned(),
                    31..=150 => "31-150".to_owned(),
                    _ => ">150".to_owned(),
                },
                opts.placement,
                one_way / MS,
                opts.read_only,
                opts.announce_port.is_some(),
                opts.include_self,
                announce
            ));

            // ---- premises: every query the node sent was answered and delivered within 1 s
            let mut delivered_reply: HashMap<Vec<u8>, u64> = HashMap::new();
            for w in log.iter().filter(|w| w.ev == Ev::Deliver && w.dst == bed.addr) {
                if let Ok(k) = Krpc::parse(&w.data) {
                    if k.as_reply().is_some() {
                        delivered_reply.entry(k.t.clone()).or_insert(w.t);
                    }
                }
            }
            let premises = sh.queries.iter().all(|q| {
                !q.failed && matches!(delivered_reply.get(&q.tid), Some(t) if *t <= q.t + SEC)
            }) && sh.accepted.len() == sh.queries.len()
                && result.ended.is_some();
            if !premises {
                report.count("precondition_miss_slow_or_unanswered_query");
                continue;
            }
            report.count("searches_with_premises_checked");

            let mut oracle = Oracle {
                report: &mut report,
                info: info.clone().with("search_no", s as u64),
                remap: &[("C03", "C02"), ("C04", "C02")],
            };
            oracle.check_values(&sh, &spec);
            oracle.check_announces(&sh, &spec);
            // timing is C04's business: evaluated, but reported as cross observation
            let mut timing = Oracle {
                report: oracle.report,
                info: info.clone(),
                remap: &[],
            };
            timing.check_timing(&mut sh, &spec, bed.net.now());

            // ---- announce targets: exactly the 8 nodes closest to the info-hash
            let world = bed.world.lock().unwrap();
            if announce {
                let closest: Vec<usize> = world.closest(&ih, 8, None, bed.v6);
                let want: HashSet<SocketAddr> = closest.iter().map(|i| world.nodes[*i].addr).collect();
                let got: HashSet<SocketAddr> = sh.announces.iter().map(|a| a.dst).collect();
                report.add("announce_targets_checked", got.len() as u64);
                if got != want || sh.announces.len() != want.len() {
                    let missing: Vec<String> = want.difference(&got).map(|a| a.to_string()).collect();
                    let extra: Vec<String> = got.difference(&want).map(|a| a.to_string()).collect();
                    report.violation(
                        "C02",
                        "announce-set",
                        format!(
                            "announce_peer went to {} node(s) ({} datagrams) instead of exactly the {} closest to the info-hash: missing {:?}, extra {:?} (world of {} nodes, {:?}, one-way latency < {} ms)",
                            got.len(),
                            sh.announces.len(),
                            want.len(),
                            missing,
                            extra,
                            world.nodes.len(),
                            opts.placement,
                            one_way / MS
                        ),
                        info.clone().with("info_hash", hex(&ih)).with("search_no", s as u64),
                    );
                }
                // each announce carries a token that very node issued to this search
                for an in &sh.announces {
                    let Some(&ni) = world.index.get(&an.dst) else { continue };
                    let issued = world.served[served_mark..]
                        .iter()
                        .any(|sv| sv.node == ni && sv.from == bed.addr && sv.token.as_ref() == Some(&an.token));
                    if !issued {
                        report.violation(
                            "C02",
                            "announce-token-of-other-node",
                            format!("announce_peer to {} carries token {} which that node did not issue to this search", an.dst, hex(&an.token)),
                            info.clone().with("info_hash", hex(&ih)),
                        );
                    }
                    report.count("announce_tokens_checked");
                }
            }
            drop(world);
            if idx < 2 && s == 0 {
                report.sample(
                    searchmon::sample(&sh, &spec)
                        .with("world_size", opts.world_size)
                        .with("placement", format!("{:?}", opts.placement))
                        .with("one_way_latency_ms_max", one_way / MS),
                );
            }
        }
        wiremon::always_on(&mut report, &bed.net, &[bed.addr], &info);
        report
    })
}

pub fn check(tier: Tier) -> Check {
    Check {
        id: "C02",
        level: "exploration",
        rule: "A real searcher (read-only or serving, announce port set or not, IPv4/IPv6) is bootstrapped \
               against an omniscient scripted world of 1..300 (quick) / 1..1000 (thorough) nodes (log-uniform, \
               plus 7/8/9 exactly) whose ids are uniform, clustered on the target, clustered on the searcher's \
               id or mixed; every world node answers every get_peers with the true 8 closest ids (including or \
               excluding itself), a token unique to that reply and 0..20 peer addresses unique to that reply; \
               one-way latency uniform in [0, L), L in {5,60,250,450} ms. 1..3 searches per world. The premises \
               are checked on the wire (every query answered and delivered within 1 s); then: announce targets \
               == own XOR-sorted 8 closest, token issued by that very node to this search, own id, port / \
               implied port, stream multiset == multiset of values in the delivered answers. \
               distinct_nontrivial = distinct (world size class, placement, latency, read-only, port, \
               include-self, announce) combinations.",
        assumptions: vec![
            "\"nodes truly closest\" is realised by the omniscient scripted world only",
            "datagrams reach the node tie-free (no two in the same millisecond, none in a tick where one of its query timers fires)",
        ],
        deciding: vec!["C02"],
        streams: vec![Stream::new("omniscient", tier.pick(4_800, 30_000), scenario)],
        require: vec![
            ("searches_with_premises_checked", tier.pick(4_500, 30_000)),
            ("announce_targets_checked", tier.pick(18_000, 120_000)),
            ("announce_tokens_checked", tier.pick(18_000, 120_000)),
            ("searches_after_an_idle_period_of_15_minutes_or_more", tier.pick(1_000, 6_000)),
            ("stream_items_checked", tier.pick(30_000, 200_000)),
        ],
        exhaustive: false,
    }
}
