//! C06 — announce tokens: bound to the requester IP, valid >= 10 min, dead by 30 min.

use super::{c0607, Check, Stream};
use crate::runner::Tier;

pub fn check(tier: Tier) -> Check {
    Check {
        id: "C06",
        level: "exploration",
        rule: "Stream token-module: histories of 20..1500 events on the real TokenStore (issue to one of 1..50 \
               IPv4/IPv6 addresses, present a held token from the same or another IP, present a random token, \
               advance the virtual clock by steps concentrated around 10/20/30 min +-1 ms and +-2 s, idle gaps up \
               to 40 min). Stream handler: histories of 200..6000 operations against a real node (get_peers / \
               announce_peer from 1..30 client IPs and ever-changing ports, explicit and implied port, tokens: \
               held, random, wrong length, from another IP, from the node's previous instance; node restarts; \
               clock steps as above or spanning days). Oracle (issue log token -> (ip, time)): issued to this \
               IP <= 10 min ago => must be accepted; never issued to this IP, or >= 30 min ago => must be \
               refused (error 203, nothing stored); in between either; refused announces must leave the values \
               unchanged (reference store compared on every get_peers). distinct_nontrivial = distinct (token \
               kind, oracle band, outcome, port mode) and (number of IPs, history length) classes.",
        assumptions: vec![
            "the rotation is lazy, so validity lies in [10 min, 30 min); the oracle demands only what the statement states",
        ],
        deciding: vec!["C06"],
        streams: vec![
            Stream::new("token-module", tier.pick(32, 320), c0607::token_module),
            Stream::new("handler", tier.pick(96, 3200), |ctx, idx| c0607::handler_history(ctx, idx, "C06")).budget(tier.pick(900.0, 3000.0), tier.pick(96, 1600)),
        ],
        require: vec![
            ("checkin_MustAccept", tier.pick(50_000, 5_000_000)),
            ("checkin_MustRefuse", tier.pick(50_000, 5_000_000)),
            ("checkin_Either", tier.pick(10_000, 1_000_000)),
            ("accepted_after_a_rotation", tier.pick(5_000, 500_000)),
            ("refused_after_30_min_checks", tier.pick(5_000, 500_000)),
            ("cross_ip_presentations", tier.pick(10_000, 1_000_000)),
            ("announce_MustAccept_ack", tier.pick(5_000, 200_000)),
            ("announce_MustRefuse_e203", tier.pick(5_000, 200_000)),
            ("node_restarts", tier.pick(20, 500)),
        ],
        exhaustive: false,
    }
}
