//! C06 (announce tokens) and C07 (peer store): module drivers on the real `TokenStore` /
//! `AnnounceStorage`, and operation histories through a real node's handler, each compared after
//! every operation with a small executable reference model.

use super::{replay_info, sseed, Ctx};
use crate::bed::node_addr;
use crate::gen;
use crate::json::{hex, J};
use crate::refcodec::{Body, Id, Krpc, Query};
use crate::runner::Report;
use crate::simnet::{run_sim, sleep_us, v4, v6, Ev, Micros, Net, HOUR, MIN, MS, SEC};
use crate::wiremon;
use crate::world::{spawn_node, NodeCfg};
use btdht::verif::{AnnounceStorage, Token, TokenStore};
use btdht::InfoHash;
use rand::seq::SliceRandom;
use rand::{Rng, SeedableRng};
use rand_chacha::ChaCha8Rng;
use std::collections::{BTreeSet, HashMap};
use std::net::{IpAddr, SocketAddr};
use std::time::Duration;

pub const TEN_MIN: Micros = 10 * MIN;
pub const THIRTY_MIN: Micros = 30 * MIN;
pub const DAY: Micros = 24 * HOUR;
pub const CAPACITY: usize = 500;

#[derive(Clone, Copy, Debug, PartialEq, Eq)]
pub enum TokenVerdict {
    MustAccept,
    MustRefuse,
    Either,
}

/// Issue log: token bytes -> (ip, time of issue).
#[derive(Default)]
pub struct TokenOracle {
    issued: HashMap<Vec<u8>, Vec<(IpAddr, Micros)>>,
}

impl TokenOracle {
    pub fn issue(&mut self, token: &[u8], ip: IpAddr, t: Micros) {
        self.issued.entry(token.to_vec()).or_default().push((ip, t));
    }
    pub fn verdict(&self, token: &[u8], ip: IpAddr, t: Micros) -> TokenVerdict {
        let Some(list) = self.issued.get(token) else {
            return TokenVerdict::MustRefuse;
        };
        let ages: Vec<Micros> = list.iter().filter(|(i, _)| *i == ip).map(|(_, ti)| t - ti).collect();
        if ages.is_empty() {
            return TokenVerdict::MustRefuse;
        }
        if ages.iter().any(|a| *a <= TEN_MIN) {
            TokenVerdict::MustAccept
        } else if ages.iter().all(|a| *a >= THIRTY_MIN) {
            TokenVerdict::MustRefuse
        } else {
            TokenVerdict::Either
        }
    }
    pub fn forget_all(&mut self) {
        self.issued.clear();
    }
}

/// Reference peer store: (info_hash, contact address) -> time of the last successful announce.
#[derive(Default)]
pub struct StoreModel {
    pub pairs: HashMap<(Id, SocketAddr), Micros>,
}

impl StoreModel {
    pub fn expire(&mut self, t: Micros) {
        self.pairs.retain(|_, at| t - *at < DAY);
    }
    pub fn live(&mut self, t: Micros) -> usize {
        self.expire(t);
        self.pairs.len()
    }
    /// Would an announce of this pair succeed at `t`?
    pub fn would_accept(&mut self, key: &(Id, SocketAddr), t: Micros) -> bool {
        self.expire(t);
        self.pairs.contains_key(key) || self.pairs.len() < CAPACITY
    }
    pub fn values(&mut self, ih: &Id, v6: bool, t: Micros) -> BTreeSet<SocketAddr> {
        self.expire(t);
        self.pairs
            .keys()
            .filter(|(h, a)| h == ih && a.is_ipv6() == v6)
            .map(|(_, a)| *a)
            .collect()
    }
}

fn time_step(rng: &mut ChaCha8Rng, around: &[Micros]) -> Micros {
    match rng.gen_range(0..12) {
        0 => 0,
        1 => MS,
        2 => rng.gen_range(0..SEC),
        3 => rng.gen_range(0..MIN),
        4 => *around.choose(rng).unwrap(),
        5 => around.choose(rng).unwrap().saturating_sub(MS),
        6 => *around.choose(rng).unwrap() + MS,
        7 => around.choose(rng).unwrap().saturating_sub(rng.gen_range(0..2 * SEC)),
        8 => *around.choose(rng).unwrap() + rng.gen_range(0..2 * SEC),
        9 => rng.gen_range(0..40 * MIN),
        _ => rng.gen_range(0..5 * MIN),
    }
}

// ---------------------------------------------------------------------------------------------
// C06 module driver

pub fn token_module(ctx: &Ctx, idx: u64) -> Report {
    let ctx = *ctx;
    run_sim(move || async move {
        let mut report = Report::default();
        let mut rng = ChaCha8Rng::seed_from_u64(sseed(&ctx, "token-module", idx));
        let info = replay_info("C06", "token-module", &ctx, idx);
        let histories = ctx.tier.pick(60, 600);
        let t0 = tokio::time::Instant::now();
        let now = || (tokio::time::Instant::now() - t0).as_micros() as Micros;
        for hno in 0..histories {
            let mut store = TokenStore::new();
            let mut oracle = TokenOracle::default();
            let n_ips = rng.gen_range(1..=50);
            let mut ips: Vec<IpAddr> = (0..n_ips)
                .map(|i| match rng.gen_range(0..10) {
                    0..=3 => v4(30, 0, i as u8, rng.gen(), 1).ip(),
                    4..=6 => v6(9, i as u64 * 7 + 1, 1).ip(),
                    // special IPv6 forms (IPv4-mapped / -compatible, NAT64, 6to4, link-local ...)
                    _ => gen::addr_v6(&mut rng).ip(),
                })
                .collect();
            // an IPv4-mapped address and its plain IPv4 twin are different IPs
            for ip in ips.clone() {
                if let IpAddr::V6(a) = ip {
                    if let Some(v4twin) = a.to_ipv4_mapped() {
                        ips.push(IpAddr::V4(v4twin));
                    }
                }
            }
            let mut held: Vec<(Vec<u8>, IpAddr, Micros)> = Vec::new();
            let len = rng.gen_range(20..1500);
            let fast = rng.gen_bool(0.4);
            let mut trace: Vec<String> = Vec::new();
            report.evaluations += 1;
            for _ in 0..len {
                let t = now();
                match rng.gen_range(0..10) {
                    0..=2 => {
                        let ip = *ips.choose(&mut rng).unwrap();
                        let tok: [u8; 20] = store.checkout(ip).into();
                        oracle.issue(&tok, ip, t);
                        held.push((tok.to_vec(), ip, t));
                        if held.len() > 200 {
                            held.remove(0);
                        }
                        report.count("tokens_issued");
                        trace.push(format!("{}ms issue {ip}", t / MS));
                    }
                    3..=6 if !held.is_empty() => {
                        let (tok, ip, issued) = if rng.gen_bool(0.5) {
                            let k = rng.gen_range(1..=held.len().min(5));
                            held[held.len() - k].clone()
                        } else {
                            held.choose(&mut rng).unwrap().clone()
                        };
                        // same IP, or another one
                        let from = if rng.gen_bool(0.8) { ip } else { *ips.choose(&mut rng).unwrap() };
                        let verdict = oracle.verdict(&tok, from, t);
                        let accepted = store.checkin(from, Token::new(&tok).unwrap());
                        trace.push(format!("{}ms present token-of-{}ms from {from} -> {accepted}", t / MS, issued / MS));
                        report.count(&format!("checkin_{verdict:?}"));
                        if from != ip {
                            report.count("cross_ip_presentations");
                        }
                        let age = t - issued;
                        if from == ip && age > TEN_MIN && accepted {
                            report.count("accepted_after_a_rotation");
                        }
                        if from == ip && age >= THIRTY_MIN {
                            report.count("refused_after_30_min_checks");
                        }
                        let bad = match (verdict, accepted) {
                            (TokenVerdict::MustAccept, false) => Some(("fresh-token-refused", "refused although it was issued to this IP at most 10 minutes ago")),
                            (TokenVerdict::MustRefuse, true) => Some(("dead-or-foreign-token-accepted", "accepted although it was never issued to this IP or was issued at least 30 minutes ago")),
                            _ => None,
                        };
                        if let Some((sig, what)) = bad {
                            report.violation(
                                "C06",
                                sig,
                                format!("token issued at {} ms to {ip}, presented at {} ms from {from}: {what}", issued / MS, t / MS),
                                info.clone()
                                    .with("history_no", hno as u64)
                                    .with("last_events", trace.iter().rev().take(25).rev().map(|s| J::s(s.as_str())).collect::<Vec<_>>()),
                            );
                            return report;
                        }
                    }
                    7 => {
                        // a token never issued: random, or an issued one with a single byte altered
                        // (any position, the last ones included), presented from the issuee's IP
                        let (tok, from) = if !held.is_empty() && rng.gen_bool(0.6) {
                            let (mut tk, ip, _) = held.choose(&mut rng).unwrap().clone();
                            let at = match rng.gen_range(0..3) {
                                0 => tk.len() - 1 - rng.gen_range(0..4),
                                1 => rng.gen_range(0..4),
                                _ => rng.gen_range(0..tk.len()),
                            };
                            tk[at] ^= 1 << rng.gen_range(0..8);
                            report.count("near_miss_tokens_presented");
                            (tk, ip)
                        } else {
                            (gen::bytes(&mut rng, 20), *ips.choose(&mut rng).unwrap())
                        };
                        if oracle.verdict(&tok, from, t) == TokenVerdict::MustRefuse && store.checkin(from, Token::new(&tok).unwrap()) {
                            report.violation("C06", "random-token-accepted", format!("random token {} accepted from {from}", hex(&tok)), info.clone());
                            return report;
                        }
                        report.count("random_tokens_presented");
                    }
                    _ => {
                        let d = if fast {
                            rng.gen_range(0..3 * MIN)
                        } else {
                            time_step(&mut rng, &[TEN_MIN, 2 * TEN_MIN, THIRTY_MIN])
                        };
                        tokio::time::advance(Duration::from_micros(d)).await;
                    }
                }
            }
            report.distinct(format!("ips{}/len{}/fast{fast}", n_ips.min(10), len / 300));
            if idx == 0 && hno < 2 {
                report.sample(J::Arr(trace.iter().take(12).map(|s| J::s(s.as_str())).collect()));
            }
        }
        report
    })
}

// ---------------------------------------------------------------------------------------------
// C07 module driver

pub fn store_module(ctx: &Ctx, idx: u64) -> Report {
    let ctx = *ctx;
    run_sim(move || async move {
        let mut report = Report::default();
        let mut rng = ChaCha8Rng::seed_from_u64(sseed(&ctx, "store-module", idx));
        let info = replay_info("C07", "store-module", &ctx, idx);
        let histories = ctx.tier.pick(12, 120);
        let t0 = tokio::time::Instant::now();
        let now = || (tokio::time::Instant::now() - t0).as_micros() as Micros;
        for hno in 0..histories {
            let mut store = AnnounceStorage::new();
            let mut model = StoreModel::default();
            let n_hashes = *[1usize, 2, 10, 300].choose(&mut rng).unwrap();
            let hashes: Vec<Id> = (0..n_hashes).map(|_| gen::rand_id(&mut rng)).collect();
            let n_addrs = *[3usize, 40, 600, 2000].choose(&mut rng).unwrap();
            let addrs: Vec<SocketAddr> = (0..n_addrs)
                .map(|i| {
                    if rng.gen_bool(0.7) {
                        v4(30, (i >> 8) as u8, i as u8, 1, rng.gen_range(1..65535))
                    } else {
                        v6(9, i as u64 + 1, rng.gen_range(1..65535))
                    }
                })
                .collect();
            let len = rng.gen_range(50..4000);
            // fast tempo: small clock steps, so that the store fills up to its capacity
            let fast = rng.gen_bool(0.5);
            let mut trace: Vec<String> = Vec::new();
            report.evaluations += 1;
            // the pair whose expiry instant the clock was just moved to: re-announced first thing in half
            // of the cases (a renewal arriving exactly when its predecessor runs out, before anything else
            // has touched the store)
            let mut renew_first: Option<(Id, SocketAddr)> = None;
            for _ in 0..len {
                let t = now();
                match if renew_first.is_some() { 0 } else { rng.gen_range(0..10) } {
                    0..=5 => {
                        let mut key = (*hashes.choose(&mut rng).unwrap(), *addrs.choose(&mut rng).unwrap());
                        if let Some(k) = renew_first.take() {
                            key = k;
                            report.count("renewals_right_at_the_expiry_instant");
                        } else if rng.gen_bool(0.15) && !model.pairs.is_empty() {
                            // re-announce a pair that is (or recently was) stored
                            let k = rng.gen_range(0..model.pairs.len());
                            key = *model.pairs.keys().nth(k).unwrap();
                        }
                        let existed = {
                            model.expire(t);
                            model.pairs.contains_key(&key)
                        };
                        let want = model.would_accept(&key, t);
                        let got = store.add_item(InfoHash::from(key.0), key.1);
                        trace.push(format!("{}ms announce {}.. {} -> {got} (live {})", t / MS, hex(&key.0[..3]), key.1, model.pairs.len()));
                        report.count(if got { "announces_accepted" } else { "announces_refused_full" });
                        if existed && got {
                            report.count("renewals");
                            if model.pairs.len() >= CAPACITY {
                                report.count("renewals_while_full");
                            }
                        }
                        if got != want {
                            report.violation(
                                "C07",
                                if got { "accepted-beyond-capacity" } else { "refused-with-room" },
                                format!(
                                    "announce of {} pair at {} ms returned {got}, reference says {want} ({} live pairs)",
                                    if existed { "an existing" } else { "a new" },
                                    t / MS,
                                    model.pairs.len()
                                ),
                                info.clone()
                                    .with("history_no", hno as u64)
                                    .with("last_events", trace.iter().rev().take(20).rev().map(|s| J::s(s.as_str())).collect::<Vec<_>>()),
                            );
                            return report;
                        }
                        if got {
                            model.pairs.insert(key, t);
                        }
                    }
                    6 | 7 => {
                        let ih = *hashes.choose(&mut rng).unwrap();
                        let got: Vec<SocketAddr> = store.find_items(&InfoHash::from(ih)).collect();
                        let got_set: BTreeSet<SocketAddr> = got.iter().copied().collect();
                        let mut want = model.values(&ih, false, t);
                        want.extend(model.values(&ih, true, t));
                        report.count("lookups_compared");
                        report.maxi("most_peers_on_one_info_hash", got.len() as u64);
                        if got.len() != got_set.len() || got_set != want {
                            report.violation(
                                "C07",
                                if got.len() != got_set.len() { "duplicate-peer" } else { "peers-differ" },
                                format!(
                                    "stored peers for {}.. at {} ms: {} returned ({} distinct), reference has {}; missing {:?}, extra {:?}",
                                    hex(&ih[..3]),
                                    t / MS,
                                    got.len(),
                                    got_set.len(),
                                    want.len(),
                                    want.difference(&got_set).take(3).collect::<Vec<_>>(),
                                    got_set.difference(&want).take(3).collect::<Vec<_>>()
                                ),
                                info.clone()
                                    .with("history_no", hno as u64)
                                    .with("last_events", trace.iter().rev().take(20).rev().map(|s| J::s(s.as_str())).collect::<Vec<_>>()),
                            );
                            return report;
                        }
                    }
                    _ => {
                        let d = match rng.gen_range(0..if fast { 40 } else { 4 }) {
                            0 => time_step(&mut rng, &[DAY, DAY / 2]),
                            1 => rng.gen_range(0..3 * HOUR),
                            2 => {
                                // jump to just around the expiry of some stored pair
                                let oldest = model.pairs.iter().min_by_key(|(_, at)| **at).map(|(k, at)| (*k, *at));
                                let target = oldest.map(|(_, m)| m + DAY).unwrap_or(t);
                                if rng.gen_bool(0.5) {
                                    renew_first = oldest.map(|(k, _)| k);
                                }
                                (target + rng.gen_range(0..3 * MS)).saturating_sub(t + MS)
                            }
                            3 => rng.gen_range(0..10 * MIN),
                            _ => rng.gen_range(0..2 * MIN),
                        };
                        let before = model.live(t);
                        tokio::time::advance(Duration::from_micros(d)).await;
                        let after = model.live(now());
                        if after < before {
                            report.add("pairs_expired", (before - after) as u64);
                            if before >= CAPACITY {
                                report.count("expiry_freed_capacity");
                            }
                        }
                    }
                }
            }
            report.distinct(format!("hashes{n_hashes}/addrs{n_addrs}/len{}", len / 1000));
            if idx == 0 && hno < 2 {
                report.sample(J::Arr(trace.iter().take(10).map(|s| J::s(s.as_str())).collect()));
            }
        }
        report
    })
}

// ---------------------------------------------------------------------------------------------
// Histories through the handler of a real node (serves both properties)

struct Client {
    addr: SocketAddr,
}

pub fn handler_history(ctx: &Ctx, idx: u64, check: &'static str) -> Report {
    let ctx = *ctx;
    run_sim(move || async move {
        let mut report = Report::default();
        let seed = sseed(&ctx, "handler", idx);
        let mut rng = ChaCha8Rng::seed_from_u64(seed);
        let info = replay_info(check, "handler", &ctx, idx);
        let net = Net::new(seed);
        let node_v6 = rng.gen_bool(0.3);
        let addr = node_addr(node_v6, 1);
        let mut cfg = NodeCfg::new(addr);
        let mut node_id = gen::rand_id(&mut rng);
        cfg.id = Some(node_id);
        let mut dht = spawn_node(&net, &cfg);
        let lat = 3 * MS;
        report.evaluations += 1;

        let n_ips = rng.gen_range(1..=30usize);
        let store_heavy = rng.gen_bool(0.35);
        let n_hashes = if store_heavy { rng.gen_range(1..4) } else { *[1usize, 5, 40, 300].choose(&mut rng).unwrap() };
        let hashes: Vec<Id> = (0..n_hashes).map(|_| gen::rand_id(&mut rng)).collect();
        let mut tokens = TokenOracle::default();
        let mut store = StoreModel::default();
        let mut held: Vec<(Vec<u8>, IpAddr, Micros)> = Vec::new();
        let mut stale_instance_tokens: Vec<(Vec<u8>, IpAddr)> = Vec::new();
        let next_port = std::cell::Cell::new(1000u16);
        let len = if store_heavy {
            ctx.tier.pick(rng.gen_range(1300..2200), rng.gen_range(1500..6000))
        } else {
            ctx.tier.pick(rng.gen_range(200..1500), rng.gen_range(500..6000))
        };
        let long_horizon = rng.gen_bool(0.3);
        let horizon_cap = 4 * DAY;
        let mut port_counter = 0u16;
        let mut trace: Vec<String> = Vec::new();
        let fresh_port = || {
            next_port.set(next_port.get().wrapping_add(1).max(1000));
            next_port.get()
        };
        let client = |rng: &mut ChaCha8Rng, ip: usize, fam6: bool| -> Client {
            let _ = rng;
            let port = fresh_port();
            Client {
                // every fourth IPv6 client IP is the IPv4-mapped form of the IPv4 client IP with the
                // same index (a dual-stack socket's view of that peer): different IPs for tokens
                addr: if fam6 && ip % 4 == 1 {
                    // link-local peer as a real socket reports it: non-zero scope id and flow label
                    std::net::SocketAddr::V6(std::net::SocketAddrV6::new(
                        std::net::Ipv6Addr::new(0xfe80, 0, 0, 0, 0, 0, 9, ip as u16 + 1),
                        port,
                        0x5_1234,
                        3,
                    ))
                } else if fam6 && ip % 4 == 3 {
                    std::net::SocketAddr::new(std::net::Ipv4Addr::new(30, 0, ip as u8, 1).to_ipv6_mapped().into(), port)
                } else if fam6 {
                    v6(9, ip as u64 + 1, port)
                } else {
                    v4(30, 0, ip as u8, 1, port)
                },
            }
        };

        macro_rules! ask {
            ($src:expr, $msg:expr) => {{
                let mark = net.log_len();
                net.send_from_after($src, addr, $msg.encode(), lat);
                sleep_us(lat + MS).await;
                let answers: Vec<Krpc> = net
                    .log_since(mark)
                    .iter()
                    .filter(|w| w.ev == Ev::Send && w.src == addr && w.dst == $src)
                    .filter_map(|w| Krpc::parse(&w.data).ok())
                    .collect();
                answers
            }};
        }

        for step in 0..len {
            let t = net.now();
            let fam6 = rng.gen_bool(0.3);
            let ip = rng.gen_range(0..n_ips);
            let mut roll = rng.gen_range(0..100);
            if store_heavy {
                // mostly announces with a token that is still fresh; fetch one when needed
                let fresh = held.last().map(|(_, _, at)| t < at + 5 * MIN).unwrap_or(false);
                roll = if !fresh { 0 } else if roll < 8 { 0 } else if roll < 92 { 30 } else { 99 };
            }
            if roll < 25 {
                // get_peers: token issue + values comparison
                let c = client(&mut rng, ip, fam6);
                let ih = *hashes.choose(&mut rng).unwrap();
                let q = Krpc::query(gen::tid(&mut rng), gen::rand_id(&mut rng), Query::GetPeers { info_hash: ih, want: gen::want(&mut rng) });
                let answers = ask!(c.addr, q);
                let t_arrive = t + lat;
                let Some(r) = answers.first().and_then(|k| k.as_reply()) else {
                    report.cross("C05", "no-reply", format!("get_peers got {} answers", answers.len()), info.clone());
                    continue;
                };
                if let Some(tok) = &r.token {
                    tokens.issue(tok, c.addr.ip(), t_arrive);
                    held.push((tok.clone(), c.addr.ip(), t_arrive));
                    if held.len() > 300 {
                        held.remove(0);
                    }
                    report.count("tokens_issued");
                }
                let got: Vec<SocketAddr> = r.values.clone();
                let got_set: BTreeSet<SocketAddr> = got.iter().copied().collect();
                let want = store.values(&ih, fam6, t_arrive);
                report.count("lookups_compared");
                report.maxi("most_peers_in_one_reply", got.len() as u64);
                trace.push(format!("{}ms get_peers {}.. from {} -> {} values", t / MS, hex(&ih[..3]), c.addr, got.len()));
                if got.len() != got_set.len() || got_set != want {
                    report.violation(
                        "C07",
                        if got.len() != got_set.len() { "duplicate-peer" } else { "peers-differ" },
                        format!(
                            "values for {}.. asked from {} at {} ms: {} returned ({} distinct), reference has {}; missing {:?}, extra {:?}",
                            hex(&ih[..3]),
                            c.addr,
                            t_arrive / MS,
                            got.len(),
                            got_set.len(),
                            want.len(),
                            want.difference(&got_set).take(3).collect::<Vec<_>>(),
                            got_set.difference(&want).take(3).collect::<Vec<_>>()
                        ),
                        info.clone().with("step", step as u64).with("last_events", trace.iter().rev().take(20).rev().map(|s| J::s(s.as_str())).collect::<Vec<_>>()),
                    );
                    return report;
                }
            } else if roll < 75 {
                // announce_peer
                let (tok, tok_ip, kind): (Vec<u8>, Option<IpAddr>, &str) = match rng.gen_range(0..10) {
                    0 => (gen::bytes(&mut rng, 20), None, "random"),
                    1 => {
                        let n = *[0usize, 8, 19, 21, 40].choose(&mut rng).unwrap();
                        (gen::bytes(&mut rng, n), None, "wrong-length")
                    }
                    2 if !stale_instance_tokens.is_empty() => {
                        let (tk, i) = stale_instance_tokens.choose(&mut rng).unwrap().clone();
                        (tk, Some(i), "previous-instance")
                    }
                    3 if !held.is_empty() => {
                        // an issued token with one byte altered (any position, the last ones included)
                        let (mut tk, i, _) = held.choose(&mut rng).unwrap().clone();
                        let at = if rng.gen_bool(0.5) { tk.len() - 1 - rng.gen_range(0..4.min(tk.len())) } else { rng.gen_range(0..tk.len()) };
                        tk[at] ^= 1 << rng.gen_range(0..8);
                        report.count("near_miss_tokens_presented");
                        (tk, Some(i), "near-miss")
                    }
                    _ if !held.is_empty() => {
                        // prefer recent tokens in store-heavy runs so that most announces succeed
                        let (tk, i, _) = if store_heavy && rng.gen_bool(0.8) {
                            held.last().unwrap().clone()
                        } else {
                            held.choose(&mut rng).unwrap().clone()
                        };
                        (tk, Some(i), "held")
                    }
                    _ => (gen::bytes(&mut rng, 20), None, "random"),
                };
                // from the IP the token was issued to (any port), or from another one
                let src = match tok_ip {
                    Some(i) if rng.gen_bool(0.85) => SocketAddr::new(i, fresh_port()),
                    _ => client(&mut rng, ip, fam6).addr,
                };
                // link-local sources always carry their scope id and flow label, as a real socket reports them
                let src = match src {
                    SocketAddr::V6(a) if a.ip().segments()[0] == 0xfe80 => SocketAddr::V6(std::net::SocketAddrV6::new(*a.ip(), a.port(), 0x5_1234, 3)),
                    other => other,
                };
                let ih = *hashes.choose(&mut rng).unwrap();
                // a contact of this IP already stored for this info-hash: renewing it by naming its port
                // explicitly must hit the very same pair
                let same_ip_port: Option<u16> = store.pairs.keys().filter(|(h, a)| *h == ih && a.ip() == src.ip()).map(|(_, a)| a.port()).next();
                let port = if let (Some(p), true) = (same_ip_port, rng.gen_bool(0.2)) {
                    report.count("renewals_naming_the_stored_port_explicitly");
                    Some(p)
                } else if rng.gen_bool(0.5) {
                    None
                } else {
                    Some(if store_heavy {
                        // mostly new pairs, sometimes an old one (renewal)
                        if rng.gen_bool(0.85) {
                            port_counter = port_counter % 900 + 1;
                            port_counter
                        } else {
                            rng.gen_range(1..=port_counter.max(1))
                        }
                    } else {
                        gen::port(&mut rng)
                    })
                };
                let q = Krpc::query(
                    gen::tid(&mut rng),
                    gen::rand_id(&mut rng),
                    Query::AnnouncePeer { info_hash: ih, port, token: tok.clone() },
                );
                let answers = ask!(src, q);
                let t_arrive = t + lat;
                let verdict = if tok.len() == 20 { tokens.verdict(&tok, src.ip(), t_arrive) } else { TokenVerdict::MustRefuse };
                // the contact as it appears on the wire (compact form: address and port, nothing else)
                let contact = SocketAddr::new(src.ip(), port.unwrap_or(src.port()));
                let key = (ih, contact);
                let store_ok = store.would_accept(&key, t_arrive);
                let outcome = match answers.first().map(|k| &k.body) {
                    Some(Body::Reply(_)) => "ack",
                    Some(Body::Error { code: 203, .. }) => "e203",
                    Some(Body::Error { code: 202, .. }) => "e202",
                    _ => "other",
                };
                trace.push(format!(
                    "{}ms announce {}.. from {src} port {port:?} token {kind} ({verdict:?}) -> {outcome} (live {})",
                    t / MS,
                    hex(&ih[..3]),
                    store.pairs.len()
                ));
                report.count(&format!("announce_{verdict:?}_{outcome}"));
                report.distinct(format!("{kind}/{verdict:?}/{outcome}/{}", if port.is_some() { "explicit" } else { "implied" }));
                if kind == "held" && tok_ip != Some(src.ip()) {
                    report.count("cross_ip_presentations");
                }
                let tail = |trace: &Vec<String>| trace.iter().rev().take(25).rev().map(|s| J::s(s.as_str())).collect::<Vec<_>>();
                let mut fail = |prop: &str, sig: &str, what: String| {
                    report.violation(prop, sig, what, info.clone().with("step", step as u64).with("last_events", tail(&trace)));
                };
                match (verdict, outcome) {
                    (_, "other") => {
                        fail("C05", "announce-reply", format!("announce_peer got {} answers / unexpected reply", answers.len()));
                        return report;
                    }
                    (TokenVerdict::MustRefuse, o) if o != "e203" => {
                        fail(
                            "C06",
                            "bad-token-not-refused-203",
                            format!("announce with a {kind} token ({} bytes, never issued to {} or issued >= 30 min ago) was answered {o} instead of error 203", tok.len(), src.ip()),
                        );
                        return report;
                    }
                    (TokenVerdict::MustAccept, "e203") => {
                        fail(
                            "C06",
                            "fresh-token-refused",
                            format!("announce from {} with a token issued to that IP at most 10 minutes ago was refused with 203", src.ip()),
                        );
                        return report;
                    }
                    _ => {}
                }
                match outcome {
                    "ack" => {
                        if !store_ok {
                            fail("C07", "accepted-beyond-capacity", format!("new pair acknowledged although {} pairs are live", store.pairs.len()));
                            return report;
                        }
                        if store.pairs.contains_key(&key) {
                            report.count("renewals");
                        }
                        store.pairs.insert(key, t_arrive);
                        report.count("announces_accepted");
                    }
                    "e202" => {
                        if store_ok {
                            fail("C07", "refused-with-room", format!("announce refused with 202 although only {} pairs are live (or the pair exists)", store.pairs.len()));
                            return report;
                        }
                        report.count("announces_refused_full");
                    }
                    _ => {}
                }
            } else if roll < 78 && check == "C06" && rng.gen_bool(0.3) {
                // restart the node: tokens of the previous instance must be worthless
                for (tk, i, _) in held.drain(..) {
                    stale_instance_tokens.push((tk, i));
                }
                tokens.forget_all();
                store = StoreModel::default();
                drop(dht);
                sleep_us(10 * MS).await;
                node_id = gen::rand_id(&mut rng);
                cfg.id = Some(node_id);
                dht = spawn_node(&net, &cfg);
                sleep_us(10 * MS).await;
                report.count("node_restarts");
                trace.push(format!("{}ms node restarted", t / MS));
            } else {
                let d = if store_heavy && !long_horizon {
                    rng.gen_range(0..20 * SEC)
                } else if net.now() > horizon_cap {
                    rng.gen_range(0..MIN)
                } else if long_horizon {
                    match rng.gen_range(0..5) {
                        0 => time_step(&mut rng, &[DAY, DAY - 10 * MIN]),
                        1 => rng.gen_range(0..6 * HOUR),
                        2 => {
                            let target = store.pairs.values().copied().min().map(|m| m + DAY).unwrap_or(t);
                            (target + rng.gen_range(0..20 * MS)).saturating_sub(t + 10 * MS)
                        }
                        _ => time_step(&mut rng, &[TEN_MIN, 2 * TEN_MIN, THIRTY_MIN]),
                    }
                } else {
                    time_step(&mut rng, &[TEN_MIN, 2 * TEN_MIN, THIRTY_MIN])
                };
                let before = store.live(t);
                sleep_us(d).await;
                let after = store.live(net.now());
                if after < before {
                    report.add("pairs_expired", (before - after) as u64);
                    if before >= CAPACITY {
                        report.count("expiry_freed_capacity");
                    }
                }
            }
        }
        report.maxi("virtual_hours_in_one_history", net.now() / HOUR);
        if idx < 2 {
            report.sample(J::Arr(trace.iter().take(12).map(|s| J::s(s.as_str())).collect()));
        }
        wiremon::always_on(&mut report, &net, &[addr], &info);
        let _ = (node_id, Duration::ZERO);
        report
    })
}
