//! C14 — no datagram can crash, abort or exhaust the node.
//!
//! Stream `decode`: supervised worker processes decode structure-aware hostile inputs on a 2 MiB
//! stack under a counting allocator and a panic hook; abnormal exit of the worker, a panic, or
//! memory requests out of proportion to the input are violations.

use super::{replay_info, sseed, Check, Ctx, Stream};
use crate::gen;
use crate::hostile::{Class, Hostile, MAX_DATAGRAM};
use crate::json::{hex, J};
use crate::meter;
use crate::runner::{Report, Tier};
use crate::supervise::{journal_note, sample_input};
use btdht::message::Message;
use rand::{Rng, SeedableRng};
use rand_chacha::ChaCha8Rng;
use std::panic;

/// Largest single allocation request tolerated while decoding one datagram.
pub const MAX_SINGLE_REQUEST: usize = 64 * 1024;
/// Total bytes requested tolerated while decoding one datagram of `len` bytes.
pub fn max_total(len: usize) -> usize {
    64 * len + 64 * 1024
}

/// Stack size of tokio's worker threads (the smallest stack a node task normally runs on).
pub const NODE_STACK: usize = 2 * 1024 * 1024;

pub struct DecodeMonitor<'a> {
    pub report: &'a mut Report,
    pub info: J,
}

impl DecodeMonitor<'_> {
    /// Decode one input under all monitors.
    pub fn feed(&mut self, input: &[u8], class: Class) {
        journal_note(b'D', input);
        self.report.evaluations += 1;
        self.report.count(&format!("class_{class:?}"));
        meter::start();
        let result = panic::catch_unwind(|| {
            let decoded = Message::decode(input);
            // A decoded message is echoed / re-encoded by the node; that must not blow up either.
            let reencoded = decoded.as_ref().ok().map(|m| m.encode().map(|e| e.len()));
            (decoded.is_ok(), reencoded)
        });
        let usage = meter::stop();
        self.report.maxi("largest_single_request_bytes", usage.max_request as u64);
        self.report.maxi("largest_total_requested_bytes", usage.total as u64);
        self.report.maxi("most_allocations_per_decode", usage.count as u64);
        let replay = || {
            self.info
                .clone()
                .with("input_hex", hex(input))
                .with("class", format!("{class:?}"))
        };
        match result {
            Ok((ok, _)) => {
                self.report.count(if ok { "decoded_ok" } else { "decode_rejected" });
                self.report.distinct(format!(
                    "{class:?}/{}/{}",
                    if ok { "ok" } else { "err" },
                    match input.len() {
                        0..=15 => "tiny",
                        16..=199 => "small",
                        200..=999 => "medium",
                        _ => "large",
                    }
                ));
            }
            Err(_) => {
                let panics = crate::runner::take_panics();
                let (loc, msg) = panics.first().cloned().unwrap_or_default();
                self.report.violation(
                    "C14",
                    format!("decode-panic@{loc}"),
                    format!(
                        "decoding panicked at {loc}: {msg}; input ({} bytes) {:?}",
                        input.len(),
                        String::from_utf8_lossy(&input[..input.len().min(120)])
                    ),
                    replay(),
                );
            }
        }
        if usage.max_request > MAX_SINGLE_REQUEST || usage.total > max_total(input.len()) {
            self.report.violation(
                "C14",
                "alloc-out-of-proportion",
                format!(
                    "decoding a {}-byte input requested memory out of proportion: largest single request {} bytes, total {} bytes; input {:?}",
                    input.len(),
                    usage.max_request,
                    usage.total,
                    String::from_utf8_lossy(&input[..input.len().min(120)])
                ),
                replay(),
            );
        }
    }
}

fn decode_scenario(ctx: &Ctx, idx: u64) -> Report {
    let ctx = *ctx;
    // Run on a thread with the stack size node tasks get from tokio's multi-thread runtime.
    let handle = std::thread::Builder::new()
        .stack_size(NODE_STACK)
        .name("decode-2MiB".into())
        .spawn(move || decode_body(&ctx, idx))
        .expect("spawn");
    match handle.join() {
        Ok(r) => r,
        Err(_) => {
            let mut r = Report::default();
            r.inconclusive.push("decode thread panicked outside catch_unwind".into());
            r
        }
    }
}

fn decode_body(ctx: &Ctx, idx: u64) -> Report {
    let mut report = Report::default();
    let mut rng = ChaCha8Rng::seed_from_u64(sseed(ctx, "decode", idx));
    let hostile = Hostile::new();
    let n = ctx.tier.pick(20_000, 400_000);
    let sweeps = ctx.tier.pick(30, 300);
    let info = replay_info("C14", "decode", ctx, idx);

    // Calibration on valid traffic (also keeps the thresholds honest: a valid maximum-size
    // message must stay well below them).
    let mut valid_max_req = 0usize;
    let mut valid_max_total = 0usize;
    for _ in 0..2_000 {
        let m = gen::krpc(&mut rng).encode();
        if m.len() > MAX_DATAGRAM {
            continue;
        }
        meter::start();
        let ok = Message::decode(&m).is_ok();
        let u = meter::stop();
        if ok {
            valid_max_req = valid_max_req.max(u.max_request);
            valid_max_total = valid_max_total.max(u.total);
            report.count("valid_calibration_messages");
        }
    }
    report.maxi("valid_traffic_largest_single_request", valid_max_req as u64);
    report.maxi("valid_traffic_largest_total_requested", valid_max_total as u64);
    if valid_max_req * 4 > MAX_SINGLE_REQUEST {
        report.inconclusive.push(format!(
            "threshold too tight: valid traffic already requests {valid_max_req} bytes at once"
        ));
    }

    let mut mon = DecodeMonitor {
        report: &mut report,
        info,
    };
    for i in 0..n {
        let (bytes, class) = hostile.datagram(&mut rng);
        if i < 2 && idx == 0 {
            mon.report.sample(sample_input(&bytes).with("class", format!("{class:?}")));
        }
        mon.feed(&bytes, class);
    }
    for _ in 0..sweeps {
        let base = gen::krpc(&mut rng).to_value();
        if base.encode().len() > 700 {
            continue;
        }
        mon.report.count("systematic_sweeps");
        let mut inputs = Vec::new();
        hostile.sweep(&mut rng, &base, |b, c| inputs.push((b, c)));
        for (b, c) in inputs {
            mon.feed(&b, c);
        }
    }
    // Fixed corpus of classic killers.
    for s in [
        &b"d1:t99999999999:"[..],
        b"d1:t9223372036854775808:",
        b"d1:t18446744073709551615:",
        b"d1:t20000000000:",
        b"99999999999999999999:",
        b"d1:ad2:id20:abcdefghij0123456789e1:q4:ping1:t4294967296:aa1:y1:qe",
    ] {
        mon.feed(s, Class::HugeLength);
    }
    for key in ["a", "r", "e", "t", "y", "q", "zz"] {
        for open in [b'l', b'd'] {
            let mut v = format!("d1:{key}").into_bytes();
            while v.len() < MAX_DATAGRAM {
                v.push(open);
                if open == b'd' && v.len() + 3 < MAX_DATAGRAM {
                    v.extend_from_slice(b"1:k");
                }
            }
            v.truncate(MAX_DATAGRAM);
            mon.feed(&v, Class::Nesting);
        }
    }
    let _ = rng.gen::<u8>();
    report
}

// ---------------------------------------------------------------------------------------------
// Node level: a running node receives hostile datagrams interleaved with valid traffic and must
// keep serving. Runs in a supervised child process as well (an abort would take the harness down).

fn node_scenario(ctx: &Ctx, idx: u64) -> Report {
    use crate::bed::{Bed, BedOpts};
    use crate::refcodec::{Krpc, Query};
    use crate::simnet::{run_sim, sleep_us, MS, SEC};
    use rand::seq::SliceRandom;
    let ctx = *ctx;
    run_sim(move || async move {
        let mut report = Report::default();
        let seed = sseed(&ctx, "node", idx);
        let mut rng = ChaCha8Rng::seed_from_u64(seed);
        let info = replay_info("C14", "node", &ctx, idx);
        let hostile = Hostile::new();
        let batches = ctx.tier.pick(12, 60);
        for run in 0..ctx.tier.pick(3, 6) {
            let mut opts = BedOpts::random(&mut rng);
            opts.read_only = false;
            opts.world_size = *[0usize, 3, 30].choose(&mut rng).unwrap();
            // valid traffic is hostile too: the network duplicates datagrams (also the answers to the
            // node's own bootstrap / refresh / search queries), half of the copies back to back
            opts.dup_p = *[0.0, 0.2, 0.5].choose(&mut rng).unwrap();
            let mut bed = Bed::new(seed ^ run as u64, &mut rng, &opts).await;
            report.evaluations += 1;
            // API calls racing the deliveries (other threads of the application)
            let hammer = crate::world::api_hammer(&bed.net, &bed.dht, bed.addr, seed ^ run as u64, 0.05, 400);
            // the node's own contacts are hostile too: their (well-formed) answers to its searches,
            // refresh and bootstrap queries carry adversarial node lists
            bed.world.lock().unwrap().hostile_lists = *[0.0, 0.3, 1.0].choose(&mut rng).unwrap();
            let world_addrs: Vec<std::net::SocketAddr> = bed.world.lock().unwrap().nodes.iter().map(|n| n.addr).collect();
            // valid traffic first, in a third of the runs: one info-hash filled peer by peer with a
            // get_peers after every announce, so that every exact store size gets asked about
            if rng.gen_bool(0.33) {
                let ih = gen::rand_id(&mut rng);
                let fam = rng.gen_bool(0.5);
                let c0 = bed.client(fam, 6);
                let tok = bed
                    .ask(c0, &Krpc::query(b"tk", gen::rand_id(&mut rng), Query::GetPeers { info_hash: ih, want: None }))
                    .await
                    .first()
                    .and_then(|k| k.as_reply().and_then(|r| r.token.clone()))
                    .unwrap_or_default();
                let upto = rng.gen_range(50..260u16);
                for p in 1..=upto {
                    let src = bed.client(fam, 6);
                    bed.inject(src, Krpc::query(gen::tid(&mut rng), gen::rand_id(&mut rng), Query::AnnouncePeer { info_hash: ih, port: Some(p), token: tok.clone() }).encode());
                    let asker = bed.client(if rng.gen_bool(0.8) { fam } else { !fam }, 7);
                    bed.inject(asker, Krpc::query(gen::tid(&mut rng), gen::rand_id(&mut rng), Query::GetPeers { info_hash: ih, want: gen::want(&mut rng) }).encode());
                    if p % 16 == 0 {
                        sleep_us(bed.client_latency + MS).await;
                    }
                }
                sleep_us(bed.client_latency + 2 * MS).await;
                report.add("store_sizes_probed_one_by_one", upto as u64);
            }
            for batch in 0..batches {
                // a search may be running while the garbage arrives
                let search = if rng.gen_bool(0.3) {
                    let (net, dht, ih) = (bed.net.clone(), bed.dht.clone(), gen::rand_id(&mut rng));
                    Some(tokio::spawn(async move {
                        crate::world::run_search(&net, &dht, ih, true, std::time::Duration::from_secs(400)).await
                    }))
                } else {
                    None
                };
                for _ in 0..rng.gen_range(5..60) {
                    let (bytes, class) = hostile.datagram(&mut rng);
                    journal_note(b'N', &bytes);
                    // from a fresh address, or spoofed from one of the node's contacts
                    let src = if !world_addrs.is_empty() && rng.gen_bool(0.3) {
                        *world_addrs.choose(&mut rng).unwrap()
                    } else {
                        bed.client(rng.gen_bool(0.5), rng.gen_range(0..8))
                    };
                    bed.net.send_from_after(src, bed.addr, bytes, rng.gen_range(0..30 * MS));
                    report.count("hostile_datagrams_injected_into_a_node");
                    report.distinct(format!("node/{class:?}"));
                    if rng.gen_bool(0.2) {
                        // valid traffic in between
                        let c = bed.client(bed.v6, 1);
                        let q = Krpc::query(gen::tid(&mut rng), gen::rand_id(&mut rng), Query::FindNode { target: gen::id(&mut rng), want: gen::want(&mut rng) });
                        bed.inject(c, q.encode());
                    }
                    if rng.gen_bool(0.1) {
                        sleep_us(rng.gen_range(0..50 * MS)).await;
                    }
                }
                sleep_us(50 * MS).await;
                if rng.gen_bool(0.5) {
                    // let the node's own periodic work (re-bootstrap every ~5 s on small tables,
                    // refresh every 6 s) run between batches, over the duplicating network
                    sleep_us(rng.gen_range(SEC..12 * SEC)).await;
                }
                // ---- liveness after the batch
                let c = bed.client(bed.v6, 2);
                let ping = Krpc::query(b"live", gen::rand_id(&mut rng), Query::Ping);
                let answers = bed.ask(c, &ping).await;
                let lim = std::time::Duration::from_secs(2);
                let state = crate::world::within(lim, bed.dht.get_state()).await;
                let contacts = crate::world::within(lim, bed.dht.load_contacts()).await;
                let laddr = crate::world::within(lim, bed.dht.local_addr()).await;
                report.count("node_liveness_probes");
                let api_ok = matches!(state, Some(Some(s)) if s.is_running) && matches!(contacts, Some(Ok(_))) && matches!(laddr, Some(Ok(_)));
                if answers.len() != 1 || !api_ok {
                    let panics = crate::runner::take_panics();
                    report.violation(
                        "C14",
                        "node-stopped-serving",
                        format!(
                            "after batch {batch} of hostile datagrams the node answered a ping {} time(s); API calls complete: {api_ok}; panics seen: {:?}",
                            answers.len(),
                            panics.iter().take(2).collect::<Vec<_>>()
                        ),
                        info.clone().with("batch", batch as u64),
                    );
                    return report;
                }
                if let Some(s) = search {
                    match tokio::time::timeout(std::time::Duration::from_secs(600), s).await {
                        Ok(Ok(r)) if r.ended.is_some() => report.count("searches_completed_under_garbage"),
                        _ => {
                            report.violation("C14", "search-does-not-complete", "a search started while hostile datagrams arrived did not complete".to_owned(), info.clone());
                            return report;
                        }
                    }
                }
            }
            {
                let st = hammer.lock().unwrap();
                report.add("api_calls_racing_deliveries", st.calls);
                if let Some((t, what)) = st.failed.first() {
                    report.violation(
                        "C14",
                        "node-stopped-serving",
                        format!("an API call issued while datagrams were being delivered did not complete at {} ms: {what}; panics seen: {:?}", t / MS, crate::runner::take_panics().iter().take(2).collect::<Vec<_>>()),
                        info.clone(),
                    );
                    return report;
                }
            }
            report.add("datagrams_duplicated_by_the_network", bed.net.log().iter().filter(|w| w.ev == crate::simnet::Ev::Deliver).count() as u64 - bed.net.log().iter().filter(|w| w.ev == crate::simnet::Ev::Deliver).map(|w| w.id).collect::<std::collections::HashSet<_>>().len() as u64);
            crate::wiremon::always_on(&mut report, &bed.net, &[bed.addr], &info);
        }
        report
    })
}

pub fn check(tier: Tier) -> Check {
    Check {
        id: "C14",
        level: "exploration",
        rule: "Inputs are structure-aware mutations of valid KRPC messages (<= 1500 bytes): length \
               prefixes of every power of ten and two +-1 up to beyond 2^128, integers at the \
               i64/u32/u16/u8 limits and malformed, nesting up to the full datagram under any node, \
               truncation, type confusion, non-UTF-8 text, bad keys, oversize, random bytes, bit flips; \
               plus systematic sweeps (every truncation offset, every class at every node position, every \
               magnitude) for some messages. Each input is decoded in a supervised worker process on a \
               2 MiB stack under a counting allocator and panic hook. Stream node: serving nodes (tables \
               filled from worlds of 0/3/30 nodes, on a network that duplicates 0/20/50 % of all datagrams, half of the copies back to back, with bursts of API calls issued in the instant of a delivery, the world answering the node's own queries with adversarial node lists in 0/30/100 % of its replies: one id under several addresses, the ids farthest from / equal to the target, all-zero and all-one ids) receive batches of 5..60 such datagrams from fresh and \
               spoofed contact addresses of both families, interleaved with valid queries and running \
               searches; after every batch a ping must be answered exactly once, get_state / load_contacts / \
               local_addr must complete and started searches must end. distinct_nontrivial = distinct \
               (mutation class, accepted/rejected, size class) combinations observed.",
        assumptions: vec![
            "release profile, 2 MiB stack (tokio worker default) decide; \"out of proportion\" = a single request > 64 KiB or total > 64 x input + 64 KiB per decode (valid maximum-size traffic is measured in every shard and must stay below a quarter of that)",
        ],
        deciding: vec!["C14"],
        streams: vec![
            Stream::new("decode", tier.pick(32, 64), decode_scenario).supervised(tier.pick(300.0, 1800.0)),
            Stream::new("node", tier.pick(128, 320), node_scenario).supervised(tier.pick(300.0, 1800.0)),
        ],
        require: vec![
            ("decode_rejected", tier.pick(200_000, 5_000_000)),
            ("decoded_ok", tier.pick(10_000, 200_000)),
            ("class_HugeLength", tier.pick(40_000, 500_000)),
            ("class_Nesting", tier.pick(40_000, 500_000)),
            ("class_Truncation", tier.pick(40_000, 500_000)),
            ("systematic_sweeps", tier.pick(200, 3_000)),
            ("hostile_datagrams_injected_into_a_node", tier.pick(80_000, 1_000_000)),
            ("node_liveness_probes", tier.pick(3_200, 40_000)),
            ("searches_completed_under_garbage", tier.pick(400, 5_000)),
            ("store_sizes_probed_one_by_one", tier.pick(5_000, 20_000)),
            ("datagrams_duplicated_by_the_network", tier.pick(8_000, 50_000)),
            ("api_calls_racing_deliveries", tier.pick(8_000, 50_000)),
        ],
        exhaustive: false,
    }
}
