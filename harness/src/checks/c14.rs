//! C14 — no datagram can crash, abort or exhaust the node.
//!
//! Stream `decode`: supervised worker processes decode structure-aware hostile inputs on a 2 MiB
//! stack under a counting allocator and a panic hook; abnormal exit of the worker, a panic, or
//! memory requests out of proportion to the input are violations.

use super::{replay_info, sseed, Check, Ctx, Stream};
use crate::gen;
use crate::hostile::{Class, Hostile, MAX_DATAGRAM};
use crate::json::{hex, J};
use crate::meter;
use crate::runner::{Report, Tier};
use crate::supervise::{journal_note, sample_input};
use btdht::message::Message;
use rand::{Rng, SeedableRng};
use rand_chacha::ChaCha8Rng;
use std::panic;

/// Largest single allocation request tolerated while decoding one datagram.
pub const MAX_SINGLE_REQUEST: usize = 64 * 1024;
/// Total bytes requested tolerated while decoding one datagram of `len` bytes.
pub fn max_total(len: usize) -> usize {
    64 * len + 64 * 1024
}

/// Stack size of tokio's worker threads (the smallest stack a node task normally runs on).
pub const NODE_STACK: usize = 2 * 1024 * 1024;

pub struct DecodeMonitor<'a> {
    pub report: &'a mut Report,
    pub info: J,
}

impl DecodeMonitor<'_> {
    /// Decode one input under all monitors.
    pub fn feed(&mut self, input: &[u8], class: Class) {
        journal_note(b'D', input);
        self.report.evaluations += 1;
        self.report.count(&format!("class_{class:?}"));
        meter::start();
        let result = panic::catch_unwind(|| {
            let decoded = Message::decode(input);
            // A decoded message is echoed / re-encoded by the node; that must not blow up either.
            let reencoded = decoded.as_ref().ok().map(|m| m.encode().map(|e| e.len()));
            (decoded.is_ok(), reencoded)
        });
        let usage = meter::stop();
        self.report.maxi("largest_single_request_bytes", usage.max_request as u64);
        self.report.maxi("largest_total_requested_bytes", usage.total as u64);
        self.report.maxi("most_allocations_per_decode", usage.count as u64);
        let replay = || {
            self.info
                .clone()
                .with("input_hex", hex(input))
                .with("class", format!("{class:?}"))
        };
        match result {
            Ok((ok, _)) => {
                self.report.count(if ok { "decoded_ok" } else { "decode_rejected" });
                self.report.distinct(format!(
                    "{class:?}/{}/{}",
                    if ok { "ok" } else { "err" },
                    match input.len() {
                        0..=15 => "tiny",
                        16..=199 => "small",
                        200..=999 => "medium",
                        _ => "large",
                    }
                ));
            }
            Err(_) => {
                let panics = crate::runner::take_panics();
                let (loc, msg) = panics.first().cloned().unwrap_or_default();
                self.report.violation(
                    "C14",
                    format!("decode-panic@{loc}"),
                    format!(
                        "decoding panicked at {loc}: {msg}; input ({} bytes) {:?}",
                        input.len(),
                        String::from_utf8_lossy(&input[..input.len().min(120)])
                    ),
                    replay(),
                );
            }
        }
        if usage.max_request > MAX_SINGLE_REQUEST || usage.total > max_total(input.len()) {
            self.report.violation(
                "C14",
                "alloc-out-of-proportion",
                format!(
                    "decoding a {}-byte input requested memory out of proportion: largest single request {} bytes, total {} bytes; input {:?}",
                    input.len(),
                    usage.max_request,
                    usage.total,
                    String::from_utf8_lossy(&input[..input.len().min(120)])
                ),
                replay(),
            );
        }
    }
}

fn decode_scenario(ctx: &Ctx, idx: u64) -> Report {
    let ctx = *ctx;
    // Run on a thread with the stack size node tasks get from tokio's multi-thread runtime.
    let handle = std::thread::Builder::new()
        .stack_size(NODE_STACK)
        .name("decode-2MiB".into())
        .spawn(move || decode_body(&ctx, idx))
        .expect("spawn");
    match handle.join() {
        Ok(r) => r,
        Err(_) => {
            let mut r = Report::default();
            r.inconclusive.push("decode thread panicked outside catch_unwind".into());
            r
        }
    }
}

fn decode_body(ctx: &Ctx, idx: u64) -> Report {
    let mut report = Report::default();
    let mut rng = ChaCha8Rng::seed_from_u64(sseed(ctx, "decode", idx));
    let hostile = Hostile::new();
    let n = ctx.tier.pick(20_000, 400_000);
    let sweeps = ctx.tier.pick(30, 300);
    let info = replay_info("C14", "decode", ctx, idx);

    // Calibration on valid traffic (also keeps the thresholds honest: a valid maximum-size
    // message must stay well below them).
    let mut valid_max_req = 0usize;
    let mut valid_max_total = 0usize;
    for _ in 0..2_000 {
        let m = gen::krpc(&mut rng).encode();
        if m.len() > MAX_DATAGRAM {
            continue;
        }
        meter::start();
        let ok = Message::decode(&m).is_ok();
        let u = meter::stop();
        if ok {
            valid_max_req = valid_max_req.max(u.max_request);
            valid_max_total = valid_max_total.max(u.total);
            report.count("valid_calibration_messages");
        }
    }
    report.maxi("valid_traffic_largest_single_request", valid_max_req as u64);
    report.maxi("valid_traffic_largest_total_requested", valid_max_total as u64);
    if valid_max_req * 4 > MAX_SINGLE_REQUEST {
        report.inconclusive.push(format!(
            "threshold too tight: valid traffic already requests {valid_max_req} bytes at once"
        ));
    }

    let mut mon = DecodeMonitor {
        report: &mut report,
        info,
    };
    for i in 0..n {
        let (bytes, class) = hostile.datagram(&mut rng);
        if i < 2 && idx == 0 {
            mon.report.sample(sample_input(&bytes).with("class", format!("{class:?}")));
        }
        mon.feed(&bytes, class);
    }
    for _ in 0..sweeps {
        let base = gen::krpc(&mut rng).to_value();
        if base.encode().len() > 700 {
            continue;
        }
        mon.report.count("systematic_sweeps");
        let mut inputs = Vec::new();
        hostile.sweep(&mut rng, &base, |b, c| inputs.push((b, c)));
        for (b, c) in inputs {
            mon.feed(&b, c);
        }
    }
    // Fixed corpus of classic killers.
    for s in [
        &b"d1:t99999999999:"[..],
        b"d1:t9223372036854775808:",
        b"d1:t18446744073709551615:",
        b"d1:t20000000000:",
        b"99999999999999999999:",
        b"d1:ad2:id20:abcdefghij0123456789e1:q4:ping1:t4294967296:aa1:y1:qe",
    ] {
        mon.feed(s, Class::HugeLength);
    }
    for key in ["a", "r", "e", "t", "y", "q", "zz"] {
        for open in [b'l', b'd'] {
            let mut v = format!("d1:{key}").into_bytes();
            while v.len() < MAX_DATAGRAM {
                v.push(open);
                if open == b'd' && v.len() + 3 < MAX_DATAGRAM {
                    v.extend_from_slice(b"1:k");
                }
            }
            v.truncate(MAX_DATAGRAM);
            mon.feed(&v, Class::Nesting);
        }
    }
    let _ = rng.gen::<u8>();
    report
}

pub fn check(tier: Tier) -> Check {
    Check {
        id: "C14",
        level: "exploration",
        rule: "Inputs are structure-aware mutations of valid KRPC messages (<= 1500 bytes): length \
               prefixes of every power of ten and two +-1 up to beyond 2^128, integers at the \
               i64/u32/u16/u8 limits and malformed, nesting up to the full datagram under any node, \
               truncation, type confusion, non-UTF-8 text, bad keys, oversize, random bytes, bit flips; \
               plus systematic sweeps (every truncation offset, every class at every node position, every \
               magnitude) for some messages. Each input is decoded in a supervised worker process on a \
               2 MiB stack under a counting allocator and panic hook. distinct_nontrivial = distinct \
               (mutation class, accepted/rejected, size class) combinations observed.",
        assumptions: vec![
            "release profile, 2 MiB stack (tokio worker default) decide; \"out of proportion\" = a single request > 64 KiB or total > 64 x input + 64 KiB per decode (valid maximum-size traffic is measured in every shard and must stay below a quarter of that)",
        ],
        deciding: vec!["C14"],
        streams: vec![Stream::new("decode", tier.pick(16, 64), decode_scenario).supervised(tier.pick(300.0, 1800.0))],
        require: vec![
            ("decode_rejected", tier.pick(100_000, 5_000_000)),
            ("decoded_ok", tier.pick(5_000, 200_000)),
            ("class_HugeLength", tier.pick(20_000, 500_000)),
            ("class_Nesting", tier.pick(20_000, 500_000)),
            ("class_Truncation", tier.pick(20_000, 500_000)),
            ("systematic_sweeps", tier.pick(100, 3_000)),
        ],
        exhaustive: false,
    }
}
