//! C20 — ids derived from an IP address pass the BEP42 check for that address.
//!
//! Oracle: independent BEP42 validator with its own bitwise CRC32-C, self-tested on the five
//! vectors published in BEP42 before any verdict is given.

use super::{replay_info, sseed, Check, Ctx, Stream};
use crate::json::{hex, J};
use crate::runner::{Report, Tier};
use btdht::InfoHash;
use rand::{Rng, SeedableRng};
use rand_chacha::ChaCha8Rng;
use std::net::{IpAddr, Ipv4Addr, Ipv6Addr};

/// Bitwise (table-free) CRC32-C, Castagnoli polynomial, reflected.
pub fn crc32c(data: &[u8]) -> u32 {
    let mut crc = 0xffff_ffffu32;
    for &byte in data {
        crc ^= byte as u32;
        for _ in 0..8 {
            crc = if crc & 1 != 0 {
                (crc >> 1) ^ 0x82f6_3b78
            } else {
                crc >> 1
            };
        }
    }
    !crc
}

/// The first 21 bits an id for `ip` with random part `r` must have (returned left-aligned in 3
/// bytes, low 3 bits of the third byte zero).
pub fn bep42_prefix(ip: IpAddr, r: u8) -> [u8; 3] {
    let r = r & 7;
    let crc = match ip {
        IpAddr::V4(ip) => {
            let v = (u32::from(ip) & 0x030f_3fff) | ((r as u32) << 29);
            crc32c(&v.to_be_bytes())
        }
        IpAddr::V6(ip) => {
            let o = ip.octets();
            let mut hi = [0u8; 8];
            hi.copy_from_slice(&o[..8]);
            let v = (u64::from_be_bytes(hi) & 0x0103_070f_1f3f_7fff) | ((r as u64) << 61);
            crc32c(&v.to_be_bytes())
        }
    };
    [(crc >> 24) as u8, (crc >> 16) as u8, (crc >> 8) as u8 & 0xf8]
}

pub fn bep42_valid(ip: IpAddr, id: &[u8; 20]) -> bool {
    let want = bep42_prefix(ip, id[19]);
    id[0] == want[0] && id[1] == want[1] && (id[2] & 0xf8) == want[2]
}

/// BEP42's published examples: (ip, rand, first three id bytes).
const VECTORS: &[([u8; 4], u8, [u8; 3])] = &[
    ([124, 31, 75, 21], 1, [0x5f, 0xbf, 0xbf]),
    ([21, 75, 31, 124], 86, [0x5a, 0x3c, 0xe9]),
    ([65, 23, 51, 170], 22, [0xa5, 0xd4, 0x32]),
    ([84, 124, 73, 14], 65, [0x1b, 0x03, 0x21]),
    ([43, 213, 53, 83], 90, [0xe5, 0x6f, 0x6c]),
];

fn oracle_self_test() -> Result<(), String> {
    if crc32c(b"123456789") != 0xe306_9283 {
        return Err("own CRC32-C fails the standard check value".into());
    }
    for (ip, r, want) in VECTORS {
        let ip = IpAddr::V4(Ipv4Addr::from(*ip));
        let got = bep42_prefix(ip, *r);
        if got[0] != want[0] || got[1] != want[1] || got[2] != (want[2] & 0xf8) {
            return Err(format!("validator disagrees with BEP42 vector {ip} r={r}"));
        }
        let mut id = [0u8; 20];
        id[..3].copy_from_slice(want);
        id[19] = *r;
        if !bep42_valid(ip, &id) {
            return Err(format!("validator rejects BEP42 vector {ip}"));
        }
        id[0] ^= 0x10;
        if bep42_valid(ip, &id) {
            return Err("validator accepts a corrupted id".into());
        }
    }
    Ok(())
}

fn check_one(report: &mut Report, ip: IpAddr, info: &dyn Fn() -> J) -> u8 {
    let id: [u8; 20] = InfoHash::from_ip(ip).into();
    report.evaluations += 1;
    if !bep42_valid(ip, &id) {
        let want = bep42_prefix(ip, id[19]);
        report.violation(
            "C20",
            "bep42-mismatch",
            format!(
                "from_ip({ip}) = {} fails BEP42: first 21 bits should be {} for r={}",
                hex(&id),
                hex(&want),
                id[19] & 7
            ),
            info().with("ip", ip.to_string()).with("id", hex(&id)),
        );
    }
    id[19] & 7
}

const V4_SHARDS: u64 = 64;

/// IANA IPv6 special-purpose blocks as (high 64 bits, low 64 bits, prefix length).
const SPECIAL_V6: &[(u64, u64, u32)] = &[
    (0, 0x0000_ffff_0000_0000, 96),            // ::ffff:0:0/96   IPv4-mapped
    (0, 0, 96),                                // ::/96           IPv4-compatible (deprecated)
    (0, 0xffff_0000_0000_0000, 96),            // ::ffff:0:0:0/96 IPv4-translated (SIIT)
    (0x0064_ff9b_0000_0000, 0, 96),            // 64:ff9b::/96    NAT64
    (0x0064_ff9b_0001_0000, 0, 48),            // 64:ff9b:1::/48  local-use NAT64
    (0x0100_0000_0000_0000, 0, 64),            // 100::/64        discard-only
    (0x2001_0000_0000_0000, 0, 32),            // 2001::/32       Teredo
    (0x2001_0db8_0000_0000, 0, 32),            // 2001:db8::/32   documentation
    (0x2002_0000_0000_0000, 0, 16),            // 2002::/16       6to4
    (0xfc00_0000_0000_0000, 0, 7),             // fc00::/7        unique local
    (0xfe80_0000_0000_0000, 0, 10),            // fe80::/10       link-local
    (0xfec0_0000_0000_0000, 0, 10),            // fec0::/10       site-local (deprecated)
    (0xff00_0000_0000_0000, 0, 8),             // ff00::/8        multicast
    (0, 0, 127),                               // ::/127          unspecified / loopback
];

fn prefix_mask(bits: u32) -> (u64, u64) {
    let m: u128 = if bits == 0 { 0 } else { !0u128 << (128 - bits) };
    ((m >> 64) as u64, m as u64)
}

fn v4_stream(ctx: &Ctx, idx: u64) -> Report {
    let mut report = Report::default();
    if let Err(e) = oracle_self_test() {
        report.inconclusive.push(format!("oracle self-test failed: {e}"));
        return report;
    }
    report.count("oracle_selftests_passed");
    let mut rng = ChaCha8Rng::seed_from_u64(sseed(ctx, "v4", idx));
    let draws = ctx.tier.pick(8, 64);
    let classes = 1u32 << 20;
    let per = classes as u64 / V4_SHARDS;
    let mut pairs = 0u64;
    for class in (idx * per)..((idx + 1) * per) {
        // Spread the 20 class bits into the mask-relevant positions 0x030f3fff.
        let c = class as u32;
        let relevant = ((c >> 18) & 0x03) << 24 | ((c >> 14) & 0x0f) << 16 | ((c >> 8) & 0x3f) << 8 | (c & 0xff);
        let mut seen_r = 0u8;
        for _ in 0..draws {
            let noise: u32 = rng.gen::<u32>() & !0x030f_3fff;
            let ip = IpAddr::V4(Ipv4Addr::from(relevant | noise));
            let r = check_one(&mut report, ip, &|| replay_info("C20", "v4", ctx, idx));
            seen_r |= 1 << r;
        }
        pairs += seen_r.count_ones() as u64;
        if class % (per / 2).max(1) == 0 && idx < 2 {
            let ip = Ipv4Addr::from(relevant);
            let id: [u8; 20] = InfoHash::from_ip(ip.into()).into();
            report.sample(
                J::obj()
                    .with("ip", ip.to_string())
                    .with("id", hex(&id))
                    .with("r", (id[19] & 7) as u64)
                    .with("expected_prefix", hex(&bep42_prefix(ip.into(), id[19]))),
            );
        }
    }
    report.add("v4_classes_covered", per);
    report.add("v4_class_r_pairs_observed", pairs);
    report.distinct_extra += pairs;
    report
}

fn v6_stream(ctx: &Ctx, idx: u64) -> Report {
    let mut report = Report::default();
    if let Err(e) = oracle_self_test() {
        report.inconclusive.push(format!("oracle self-test failed: {e}"));
        return report;
    }
    let mut rng = ChaCha8Rng::seed_from_u64(sseed(ctx, "v6", idx));
    let n = ctx.tier.pick(100_000u64, 2_000_000);
    let mut seen = std::collections::HashSet::new();
    let info = || replay_info("C20", "v6", ctx, idx);
    for i in 0..n {
        let hi: u64 = match i % 8 {
            // structured prefixes: single bits, all ones, low-entropy
            0 => 1u64 << rng.gen_range(0..64),
            1 => !(1u64 << rng.gen_range(0..64)),
            2 => rng.gen::<u64>() & 0x0103_070f_1f3f_7fff,
            3 => rng.gen::<u64>() | 0x0103_070f_1f3f_7fff,
            _ => rng.gen(),
        };
        let mut lo: u64 = rng.gen();
        let mut hi = hi;
        if i % 8 == 4 {
            // IANA special-purpose blocks (address forms a dual-stack or translating host really
            // sees): the block prefix, the remaining bits random. The ones with an embedded IPv4
            // address get a random IPv4 address in the low 32 bits.
            let (p_hi, p_lo, bits): (u64, u64, u32) = SPECIAL_V6[rng.gen_range(0..SPECIAL_V6.len())];
            let (m_hi, m_lo) = prefix_mask(bits);
            hi = (p_hi & m_hi) | (hi & !m_hi);
            lo = (p_lo & m_lo) | (lo & !m_lo);
            report.count("v6_special_purpose_block_addresses");
        }
        let mut o = [0u8; 16];
        o[..8].copy_from_slice(&hi.to_be_bytes());
        o[8..].copy_from_slice(&lo.to_be_bytes());
        let ip = IpAddr::V6(Ipv6Addr::from(o));
        let r = check_one(&mut report, ip, &info);
        if seen.len() < 100_000 {
            seen.insert((hi & 0x0103_070f_1f3f_7fff, r));
        }
        if i == 0 && idx == 0 {
            let id: [u8; 20] = InfoHash::from_ip(ip).into();
            report.sample(
                J::obj()
                    .with("ip", ip.to_string())
                    .with("id", hex(&id))
                    .with("r", (id[19] & 7) as u64),
            );
        }
    }
    // special addresses
    for ip in [Ipv6Addr::UNSPECIFIED, Ipv6Addr::LOCALHOST, Ipv6Addr::from([0xff; 16])] {
        check_one(&mut report, ip.into(), &info);
    }
    for ip in [
        Ipv4Addr::UNSPECIFIED,
        Ipv4Addr::BROADCAST,
        Ipv4Addr::LOCALHOST,
    ] {
        check_one(&mut report, ip.into(), &info);
    }
    report.add("v6_prefix_r_pairs_observed", seen.len() as u64);
    report.distinct_extra += seen.len() as u64;
    report
}

pub fn check(tier: Tier) -> Check {
    Check {
        id: "C20",
        level: "exploration",
        rule: "IPv4: every one of the 2^20 combinations of mask-relevant address bits (0x030f3fff), \
               remaining bits random, 8 (quick) / 64 (thorough) calls each; IPv6: random and \
               structured /64 prefixes, plus addresses inside the 14 IANA special-purpose blocks \
               (IPv4-mapped, IPv4-compatible, SIIT, NAT64, Teredo, 6to4, ULA, link-local, multicast ...). A case is (masked address, r) where r is the 3 random bits \
               the implementation drew; distinct_nontrivial counts distinct such pairs observed \
               (IPv6 pairs counted up to 100k per shard).",
        assumptions: vec![
            "BEP42 semantics as published: mask 0x030f3fff / 0x0103070f1f3f7fff, r<<29 / r<<61, CRC32-C, top 21 bits, r = last id byte & 7",
            "own bitwise CRC32-C, checked against the standard check value and BEP42's five vectors in every shard",
        ],
        deciding: vec!["C20"],
        streams: vec![
            Stream::new("v4", V4_SHARDS, v4_stream),
            Stream::new("v6", 16, v6_stream),
        ],
        require: vec![
            ("v4_classes_covered", 1 << 20),
            ("v4_class_r_pairs_observed", tier.pick(4_000_000, 8_000_000)),
            ("oracle_selftests_passed", V4_SHARDS),
            ("v6_special_purpose_block_addresses", tier.pick(100_000, 2_000_000)),
        ],
        exhaustive: false,
    }
}
