//! C10 — contacts are classified good / questionable / bad exactly per BEP5 timing.
//!
//! Stream `module`: the real `Node` / `Bucket` / `RoutingTable` code driven by event histories and
//! compared after every event with the executable spec (tabledrv::Contact).
//! Stream `node`: see contacts.rs (whole node on the simulated network, statuses read through
//! `load_contacts()` and compared with what the wire log allows).

use super::{c08, Check, Stream};
use crate::contacts;
use crate::runner::Tier;
use crate::tabledrv::Focus;

pub fn check(tier: Tier) -> Check {
    Check {
        id: "C10",
        level: "exploration",
        rule: "Stream module: event histories of 10..2000 steps over 1..12 contacts (answer, hearsay mention, \
               query sent, query received, clock advances of 0, 1 ms, 15 min -1 ms / exactly / +1 ms, random up \
               to 40 min) applied to the real routing-table code; after every event the status of every contact \
               (and load_contacts()) must equal the executable spec: good iff answered < 15 min ago, or not \
               dropped and queried us < 15 min ago; dropped after two queries sent while not good since the \
               last answer; hearsay = questionable. Stream node: a real serving or read-only node with 1..8 \
               scripted contacts that answer, query and fall silent on a schedule, sampled once per virtual \
               second through load_contacts(): 'reported good' requires a datagram from that contact delivered \
               in the last 15 min; a surely-accepted answer requires 'reported good' for the next 15 min; a \
               silent contact that was sent two queries while not good must not be reported unless named again. \
               distinct_nontrivial = distinct table shapes (module) + distinct (contacts, schedule class) (node).",
        assumptions: vec![
            "a fresh hearsay mention of a dropped contact re-introduces it as questionable (stated by C11; the spec treats 'dropped' as forgotten)",
        ],
        deciding: vec!["C10"],
        streams: vec![
            Stream::new("module", tier.pick(64, 640), |ctx, idx| {
                c08::history_scenario(ctx, idx, "C10", "module", Focus::Status, 0)
            })
            .budget(tier.pick(900.0, 3000.0), tier.pick(64, 320)),
            Stream::new("node", tier.pick(288, 1500), |ctx, idx| contacts::scenario(ctx, idx, "C10", "node")).budget(tier.pick(900.0, 3000.0), tier.pick(288, 750)),
        ],
        require: vec![
            ("status_comparisons", tier.pick(1_000_000, 50_000_000)),
            ("transition Good->Questionable by time", tier.pick(10_000, 500_000)),
            ("transition Questionable->Bad by second unanswered query", tier.pick(5_000, 250_000)),
            ("transition Questionable->Good by query from it", tier.pick(5_000, 250_000)),
            ("transition Questionable->Good by answer", tier.pick(10_000, 500_000)),
            ("node_samples_checked", tier.pick(300_000, 2_000_000)),
            ("node_must_be_good_checks", tier.pick(60_000, 400_000)),
            ("node_must_not_be_good_checks", tier.pick(15_000, 100_000)),
            ("node_dropped_contact_checks", tier.pick(1_500, 10_000)),
        ],
        exhaustive: false,
    }
}
