//! C13 — KRPC codec conforms to BEP5/BEP32 and round-trips every message.
//!
//! Differential monitor: btdht's `Message::encode/decode` against the independent `refcodec`,
//! plus metamorphic transforms (key permutations, unknown keys) and malformed variants that must
//! be rejected.

use super::{replay_info, sseed, Check, Ctx, Stream};
use crate::conv::to_btdht;
use crate::gen;
use crate::json::{hex, J};
use crate::refcodec::{Body, Krpc, Query, B};
use crate::runner::{Report, Tier};
use btdht::message::Message;
use rand::seq::SliceRandom;
use rand::{Rng, SeedableRng};
use rand_chacha::ChaCha8Rng;

const UNKNOWN_KEYS: &[&str] = &["v", "ip", "ro", "noseed", "scrape", "name", "p", "seed", "bf"];

fn shape(m: &Krpc) -> String {
    fn bucket(n: usize) -> &'static str {
        match n {
            0 => "0",
            1 => "1",
            2..=8 => "few",
            9..=49 => "many",
            _ => "max",
        }
    }
    let t = match m.t.len() {
        0 => "t0",
        1..=7 => "t<8",
        8 => "t8",
        9..=31 => "t<32",
        _ => "t32",
    };
    match &m.body {
        Body::Query { q, .. } => match q {
            Query::Ping => format!("ping/{t}"),
            Query::FindNode { want, .. } => format!("find_node/{want:?}/{t}"),
            Query::GetPeers { want, .. } => format!("get_peers/{want:?}/{t}"),
            Query::AnnouncePeer { port, token, .. } => format!(
                "announce/{}/tok{}/{t}",
                match port {
                    None => "implied",
                    Some(0) => "p0",
                    Some(65535) => "pmax",
                    Some(_) => "p",
                },
                bucket(token.len())
            ),
        },
        Body::Reply(r) => {
            let v4 = r.values.iter().filter(|a| a.is_ipv4()).count();
            let v6 = r.values.len() - v4;
            format!(
                "reply/n{}/n6{}/v4{}/v6{}/tok{}/{t}",
                bucket(r.nodes.len()),
                bucket(r.nodes6.len()),
                bucket(v4),
                bucket(v6),
                r.token.as_ref().map(|t| bucket(t.len())).unwrap_or("-")
            )
        }
        Body::Error { code, msg } => format!(
            "error/{}/{}/{t}",
            match code {
                0 => "c0",
                255 => "c255",
                201..=204 => "std",
                _ => "c",
            },
            if msg.is_ascii() { "ascii" } else { "utf8" }
        ),
    }
}

fn all_perms(n: usize) -> Vec<Vec<usize>> {
    fn rec(cur: &mut Vec<usize>, used: &mut Vec<bool>, out: &mut Vec<Vec<usize>>) {
        if cur.len() == used.len() {
            out.push(cur.clone());
            return;
        }
        for i in 0..used.len() {
            if !used[i] {
                used[i] = true;
                cur.push(i);
                rec(cur, used, out);
                cur.pop();
                used[i] = false;
            }
        }
    }
    let mut out = Vec::new();
    rec(&mut Vec::new(), &mut vec![false; n], &mut out);
    out
}

fn apply_perm(items: &[(Vec<u8>, B)], perm: &[usize]) -> Vec<(Vec<u8>, B)> {
    perm.iter().map(|&i| items[i].clone()).collect()
}

/// Name of the inner dictionary ("a" or "r") if the message has one.
fn inner_key(v: &B) -> Option<&'static str> {
    if v.get("a").and_then(B::as_dict).is_some() {
        Some("a")
    } else if v.get("r").and_then(B::as_dict).is_some() {
        Some("r")
    } else {
        None
    }
}

fn shuffled(v: &B, rng: &mut ChaCha8Rng) -> B {
    match v {
        B::Dict(items) => {
            let mut items: Vec<_> = items.iter().map(|(k, v)| (k.clone(), shuffled(v, rng))).collect();
            items.shuffle(rng);
            B::Dict(items)
        }
        B::List(l) => B::List(l.clone()),
        other => other.clone(),
    }
}

fn junk_value(rng: &mut ChaCha8Rng, depth: usize) -> B {
    match rng.gen_range(0..if depth > 2 { 2 } else { 4 }) {
        0 => {
            let len = rng.gen_range(0..12);
            B::Bytes(gen::bytes(rng, len))
        }
        1 => B::Int(match rng.gen_range(0..4) {
            0 => 0,
            1 => 1,
            2 => -1,
            _ => rng.gen::<i32>() as i64,
        }),
        2 => B::List((0..rng.gen_range(0..3)).map(|_| junk_value(rng, depth + 1)).collect()),
        _ => B::Dict(
            (0..rng.gen_range(0..3))
                .map(|i| (format!("k{i}").into_bytes(), junk_value(rng, depth + 1)))
                .collect(),
        ),
    }
}

fn with_unknown_keys(v: &B, rng: &mut ChaCha8Rng) -> (B, Vec<String>) {
    let mut v = v.clone();
    let mut added = Vec::new();
    let n = rng.gen_range(1..=3);
    let inner = inner_key(&v);
    for _ in 0..n {
        let key = *UNKNOWN_KEYS.choose(rng).unwrap();
        let at_inner = inner.is_some() && rng.gen_bool(0.5);
        let target: &mut B = if at_inner {
            v.get_mut(inner.unwrap()).unwrap()
        } else {
            &mut v
        };
        if target.get(key).is_some() {
            continue;
        }
        let value = junk_value(rng, 0);
        if let B::Dict(items) = target {
            let pos = rng.gen_range(0..=items.len());
            items.insert(pos, (key.as_bytes().to_vec(), value));
        }
        added.push(format!("{}{}", if at_inner { "inner." } else { "top." }, key));
    }
    let out = if rng.gen_bool(0.5) { v.canonical() } else { v };
    (out, added)
}

fn decode_debug(bytes: &[u8]) -> String {
    match Message::decode(bytes) {
        Ok(m) => format!("{m:?}"),
        Err(e) => format!("Err({e:?})"),
    }
}

fn scenario(ctx: &Ctx, idx: u64) -> Report {
    scenario_n(ctx, idx, ctx.tier.pick(20_000, 600_000))
}

/// The codec oracle over `n` generated messages (also used for the small sanitizer workloads).
pub fn scenario_n(ctx: &Ctx, idx: u64, n: usize) -> Report {
    let mut report = Report::default();
    let mut rng = ChaCha8Rng::seed_from_u64(sseed(ctx, "codec", idx));
    let info = |what: &str, enc: &[u8]| {
        replay_info("C13", "codec", ctx, idx)
            .with("transform", what)
            .with("bytes_hex", hex(enc))
    };

    // Oracle self-test: BEP5's own example messages.
    {
        let id = *b"abcdefghij0123456789";
        let m = Krpc::query("aa", id, Query::Ping);
        if m.encode() != b"d1:ad2:id20:abcdefghij0123456789e1:q4:ping1:t2:aa1:y1:qe" {
            report.inconclusive.push("refcodec fails BEP5 ping vector".into());
            return report;
        }
        let r = Krpc::parse(b"d1:rd2:id20:abcdefghij01234567895:token8:aoeusnth6:valuesl6:axje.u6:idhtnmee1:t2:aa1:y1:re");
        match r {
            Ok(k) if k.as_reply().map(|r| r.values.len()) == Some(2) => {}
            _ => {
                report.inconclusive.push("refcodec fails BEP5 get_peers response vector".into());
                return report;
            }
        }
        report.count("oracle_selftests_passed");
    }

    let hostile = crate::hostile::Hostile::new();
    for i in 0..n {
        // The codec is used by one thread for everything: what it did before must not matter.
        // Every so often it is first given something it has to refuse - a message its own types can
        // hold but BEP5 cannot express (a node of the wrong family inside nodes / nodes6, after some
        // right ones), or a hostile datagram to decode - and only then the well-formed message.
        match rng.gen_range(0..20) {
            0 => {
                if let Body::Reply(r) = gen::krpc(&mut rng).body {
                    let mut r = r;
                    let stray4 = (gen::rand_id(&mut rng), "10.1.2.3:4".parse().unwrap());
                    let stray6 = (gen::rand_id(&mut rng), "[fd00::1]:4".parse().unwrap());
                    if rng.gen_bool(0.5) {
                        r.nodes.push(stray4);
                        r.nodes.push(stray6);
                    } else {
                        r.nodes6.push(stray6);
                        r.nodes6.push(stray4);
                    }
                    if let Some(ill) = to_btdht(&Krpc { t: gen::tid(&mut rng), body: Body::Reply(r) }) {
                        let _ = ill.encode();
                        report.count("ill_typed_messages_given_to_the_encoder_first");
                    }
                }
            }
            1 => {
                let (bytes, _) = hostile.datagram(&mut rng);
                let _ = Message::decode(&bytes);
                report.count("hostile_datagrams_given_to_the_decoder_first");
            }
            _ => {}
        }
        let m = gen::krpc(&mut rng);
        let Some(bm) = to_btdht(&m) else { continue };
        report.evaluations += 1;
        report.distinct(shape(&m));
        let canonical = m.encode();

        // 1. encoder emits exactly the canonical bencoding
        match bm.encode() {
            Ok(enc) if enc == canonical => report.count("encode_equal"),
            Ok(enc) => report.violation(
                "C13",
                "encode-differs",
                format!(
                    "encoder output differs from canonical BEP encoding for {m:?}: got {:?}, want {:?}",
                    String::from_utf8_lossy(&enc),
                    String::from_utf8_lossy(&canonical)
                ),
                info("encode", &enc).with("want_hex", hex(&canonical)),
            ),
            Err(e) => report.violation(
                "C13",
                "encode-fails",
                format!("encoder fails on well-formed message {m:?}: {e:?}"),
                info("encode", &canonical),
            ),
        }

        // 2. decoder maps the canonical encoding back to the same message
        match Message::decode(&canonical) {
            Ok(dec) if dec == bm => report.count("decode_equal"),
            other => report.violation(
                "C13",
                "decode-differs",
                format!("decode(canonical) != message for {m:?}: got {other:?}"),
                info("decode", &canonical),
            ),
        }

        if i == 0 && idx < 4 {
            report.sample(
                J::obj()
                    .with("message", format!("{m:?}"))
                    .with("canonical", String::from_utf8_lossy(&canonical).into_owned()),
            );
        }

        let value = m.to_value();

        // 3. key permutations
        let exhaustive = i % 40 == 0;
        if exhaustive {
            let top = value.as_dict().unwrap();
            let inner = inner_key(&value);
            let inner_items: Vec<(Vec<u8>, B)> = inner
                .map(|k| value.get(k).unwrap().as_dict().unwrap().to_vec())
                .unwrap_or_default();
            let inner_perms = if inner.is_some() {
                all_perms(inner_items.len())
            } else {
                vec![vec![]]
            };
            for tp in all_perms(top.len()) {
                // all inner permutations with the first top permutation, and all top permutations
                // with a random inner permutation: |top|! + |inner|! cases instead of the product
                let first = tp.iter().enumerate().all(|(i, p)| i == *p);
                let chosen: Vec<&Vec<usize>> = if first {
                    inner_perms.iter().collect()
                } else {
                    vec![inner_perms.choose(&mut rng).unwrap()]
                };
                for ip in chosen {
                    let mut top_items = apply_perm(top, &tp);
                    if let Some(k) = inner {
                        for item in top_items.iter_mut() {
                            if item.0 == k.as_bytes() {
                                item.1 = B::Dict(apply_perm(&inner_items, ip));
                            }
                        }
                    }
                    let enc = B::Dict(top_items).encode();
                    report.count("permutations_checked");
                    match Message::decode(&enc) {
                        Ok(dec) if dec == bm => {}
                        other => {
                            report.violation(
                                "C13",
                                "permuted-decode-differs",
                                format!(
                                    "decode of key-permuted encoding {:?} != message {m:?}: got {other:?}",
                                    String::from_utf8_lossy(&enc)
                                ),
                                info("permute", &enc),
                            );
                            break;
                        }
                    }
                }
            }
            report.count("messages_with_exhaustive_permutations");
        } else {
            for _ in 0..2 {
                let enc = shuffled(&value, &mut rng).encode();
                report.count("permutations_checked");
                match Message::decode(&enc) {
                    Ok(dec) if dec == bm => {}
                    other => report.violation(
                        "C13",
                        "permuted-decode-differs",
                        format!(
                            "decode of key-permuted encoding {:?} != message {m:?}: got {other:?}",
                            String::from_utf8_lossy(&enc)
                        ),
                        info("permute", &enc),
                    ),
                }
            }
        }

        // 4. unknown keys at any level
        for _ in 0..2 {
            let (v, added) = with_unknown_keys(&value, &mut rng);
            if added.is_empty() {
                continue;
            }
            let enc = v.encode();
            report.count("unknown_key_variants_checked");
            for a in &added {
                report.distinct(format!("unknown:{}:{}", a, shape(&m).split('/').next().unwrap()));
            }
            match Message::decode(&enc) {
                Ok(dec) if dec == bm => {}
                other => report.violation(
                    "C13",
                    format!("unknown-key-decode-differs:{}", added.join("+")),
                    format!(
                        "decode with unknown keys {added:?} ({:?}) != message {m:?}: got {other:?}",
                        String::from_utf8_lossy(&enc)
                    ),
                    info("unknown-keys", &enc),
                ),
            }
        }

        // 5. malformed variants that must be rejected
        let must_reject = |report: &mut Report, what: &str, v: B| {
            let enc = v.encode();
            report.count("rejections_checked");
            report.distinct(format!("reject:{what}"));
            if Message::decode(&enc).is_ok() {
                report.violation(
                    "C13",
                    format!("accepts:{what}"),
                    format!(
                        "decoder accepts malformed message ({what}): {:?} -> {}",
                        String::from_utf8_lossy(&enc),
                        decode_debug(&enc)
                    ),
                    info(what, &enc),
                );
            }
        };

        match &m.body {
            Body::Query { q, .. } => {
                // arguments that lack a required argument of the named method
                let relabels: &[&str] = match q {
                    Query::Ping => &["find_node", "get_peers", "announce_peer"],
                    Query::FindNode { .. } => &["get_peers", "announce_peer"],
                    Query::GetPeers { .. } => &["find_node", "announce_peer"],
                    Query::AnnouncePeer { .. } => &["find_node"],
                };
                let name = *relabels.choose(&mut rng).unwrap();
                let mut v = value.clone();
                *v.get_mut("q").unwrap() = B::bytes(name);
                must_reject(&mut report, &format!("args-of-{}-as-{name}", m.method().unwrap()), v);

                // a 20-byte field of another length
                let fields: &[&str] = match q {
                    Query::Ping => &["id"],
                    Query::FindNode { .. } => &["id", "target"],
                    _ => &["id", "info_hash"],
                };
                let field = *fields.choose(&mut rng).unwrap();
                let len = loop {
                    let l = match rng.gen_range(0..4) {
                        0 => 0,
                        1 => 19,
                        2 => 21,
                        _ => rng.gen_range(0..41),
                    };
                    if l != 20 {
                        break l;
                    }
                };
                let mut v = value.clone();
                *v.get_mut("a").unwrap().get_mut(field).unwrap() = B::Bytes(gen::bytes(&mut rng, len));
                must_reject(&mut report, &format!("query-{field}-len-not-20"), v);
            }
            Body::Reply(r) => {
                let len = loop {
                    let l = rng.gen_range(0..41);
                    if l != 20 {
                        break l;
                    }
                };
                let mut v = value.clone();
                *v.get_mut("r").unwrap().get_mut("id").unwrap() = B::Bytes(gen::bytes(&mut rng, len));
                must_reject(&mut report, "reply-id-len-not-20", v);

                for (key, entry) in [("nodes", 26usize), ("nodes6", 38usize)] {
                    let have = if key == "nodes" { r.nodes.len() } else { r.nodes6.len() };
                    let extra = rng.gen_range(1..entry);
                    let total = have * entry + extra;
                    let mut v = value.clone();
                    let bytes = B::Bytes(gen::bytes(&mut rng, total));
                    let rd = v.get_mut("r").unwrap();
                    if let Some(slot) = rd.get_mut(key) {
                        *slot = bytes;
                    } else if let B::Dict(items) = rd {
                        items.push((key.as_bytes().to_vec(), bytes));
                    }
                    must_reject(&mut report, &format!("{key}-len-not-multiple-of-{entry}"), v.canonical());
                }
            }
            Body::Error { .. } => {}
        }
    }
    report
}

pub fn check(tier: Tier) -> Check {
    Check {
        id: "C13",
        level: "exploration",
        rule: "Messages are drawn over the whole field space of the statement (tid 0..32 B of any \
               content, 0..50 nodes/nodes6/values with mixed families, tokens 0..63 B incl. empty, \
               ports 0/1/65535/random, error codes 0..255, multi-byte UTF-8). Each is checked 5 ways: \
               encode == reference canonical encoding; decode(canonical) == message; decode of \
               key-permuted encodings (every permutation of the top level and of the inner dictionary \
               for 1 message in 40, random ones otherwise); decode with 1..3 unknown keys (v ip ro \
               noseed scrape name p seed bf; string/int/list/dict values) at top or inner level; \
               rejection of relabelled queries lacking a required argument, 20-byte fields of other \
               lengths, node lists of non-multiple length. distinct_nontrivial = distinct message shapes \
               (kind x want x port mode x tid-length class x list-size classes x value family mix) + \
               distinct (unknown key, level, kind) and rejection classes exercised.",
        assumptions: vec![
            "reference codec written from BEP3/5/32 (self-tested on BEP5's example messages in every shard)",
            "\"arguments do not fit the named method\" is tested as: a required argument of the named method is missing",
        ],
        deciding: vec!["C13"],
        streams: vec![Stream::new("codec", 64, scenario)],
        require: vec![
            ("encode_equal", tier.pick(500_000, 10_000_000)),
            ("decode_equal", tier.pick(500_000, 10_000_000)),
            ("permutations_checked", tier.pick(500_000, 10_000_000)),
            ("unknown_key_variants_checked", tier.pick(500_000, 10_000_000)),
            ("rejections_checked", tier.pick(500_000, 10_000_000)),
            ("ill_typed_messages_given_to_the_encoder_first", tier.pick(10_000, 200_000)),
            ("hostile_datagrams_given_to_the_decoder_first", tier.pick(20_000, 400_000)),
        ],
        exhaustive: false,
    }
}
