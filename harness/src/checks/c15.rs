//! C15 — bootstrap completes when it can, tells every waiter, never kills the node.

use super::{replay_info, sseed, Check, Ctx, Stream};
use crate::bed::{node_addr, world_addr, world_ids};
use crate::gen;
use crate::json::J;
use crate::refcodec::Krpc;
use crate::runner::{Report, Tier};
use crate::simnet::{run_sim, settle, sleep_us, Ev, Fate, Link, Micros, Net, HOUR, MIN, MS, SEC};
use crate::wiremon;
use crate::world::{spawn_node, within, Mode, NodeCfg, WNode, World};
use rand::seq::SliceRandom;
use rand::{Rng, SeedableRng};
use rand_chacha::ChaCha8Rng;
use std::collections::HashSet;
use std::net::SocketAddr;
use std::sync::{Arc, Mutex};
use std::time::Duration;

#[derive(Clone, Debug)]
struct Waiter {
    called: Micros,
    resolved: Option<(Micros, bool)>,
    /// The caller dropped the future before it resolved: no obligation towards it.
    gave_up: bool,
}

async fn api_alive(report: &mut Report, dht: &btdht::MainlineDht, info: &J, when: &str) -> bool {
    let lim = Duration::from_secs(2);
    let state = within(lim, dht.get_state()).await;
    let contacts = within(lim, dht.load_contacts()).await;
    let addr = within(lim, dht.local_addr()).await;
    report.count("api_liveness_probes");
    let ok = matches!(state, Some(Some(s)) if s.is_running)
        && matches!(contacts, Some(Ok(_)))
        && matches!(addr, Some(Ok(_)));
    if !ok {
        report.violation(
            "C15",
            "api-dead",
            format!(
                "API calls no longer complete on a running node ({when}): get_state={:?} load_contacts ok={} local_addr ok={}",
                state.map(|s| s.map(|s| s.is_running)),
                matches!(contacts, Some(Ok(_))),
                matches!(addr, Some(Ok(_)))
            ),
            info.clone().with("when", when),
        );
    }
    ok
}

fn scenario(ctx: &Ctx, idx: u64) -> Report {
    let ctx = *ctx;
    run_sim(move || async move {
        let mut report = Report::default();
        let seed = sseed(&ctx, "bootstrap", idx);
        let mut rng = ChaCha8Rng::seed_from_u64(seed);
        let mut info = replay_info("C15", "bootstrap", &ctx, idx);
        let net = Net::new(seed);
        let v6 = rng.gen_bool(0.3);
        let addr = node_addr(v6, 1);
        let id = gen::rand_id(&mut rng);

        // ---- configuration
        let n_contacts = match rng.gen_range(0..10) {
            0 => 0,
            1 | 2 => 1,
            3..=6 => rng.gen_range(2..=8),
            7 | 8 => rng.gen_range(9..=20),
            _ => rng.gen_range(21..=40),
        };
        let world_size = n_contacts + rng.gen_range(0..30);
        let ids = world_ids(&mut rng, world_size, &id, 0.3);
        let mut nodes: Vec<WNode> = ids
            .into_iter()
            .enumerate()
            .map(|(i, wid)| WNode::new(wid, world_addr(v6, i as u32)))
            .collect();
        // contact behaviours
        let mut proper = 0;
        for n in nodes.iter_mut().take(n_contacts) {
            match rng.gen_range(0..10) {
                0 | 1 => {
                    n.silent_from = 0;
                }
                2 => n.mode = Mode::Errors,
                3 => n.mode = Mode::Garbage,
                _ => proper += 1,
            }
        }
        let contact_addrs: Vec<SocketAddr> = nodes.iter().take(n_contacts).map(|n| n.addr).collect();
        // split contacts into plain nodes / routers / both
        let use_routers = rng.gen_bool(0.35);
        let mut cfg = NodeCfg::new(addr);
        cfg.id = Some(id);
        cfg.read_only = rng.gen_bool(0.5);
        let mut overlap = 0;
        for a in &contact_addrs {
            if use_routers {
                match rng.gen_range(0..4) {
                    0 => cfg.nodes.push(*a),
                    1 | 2 => cfg.routers.push(a.to_string()),
                    _ => {
                        cfg.nodes.push(*a);
                        cfg.routers.push(a.to_string());
                        overlap += 1;
                    }
                }
            } else {
                cfg.nodes.push(*a);
            }
        }
        let plain_only = cfg.routers.is_empty();
        let owned: HashSet<_> = nodes.iter().map(|n| n.addr).collect();
        let mut world = World::new(nodes);
        world.keep_served = false;
        // contacts whose (well-formed) answers carry adversarial node lists: one id under several
        // addresses, one address under several ids, extreme ids
        world.hostile_lists = *[0.0, 0.0, 0.0, 0.5].choose(&mut rng).unwrap();
        net.add_actor(move |a| owned.contains(a), world);

        // ---- outage pattern: unreachable windows, the last one ends at t_up
        let mut outages: Vec<(Micros, Micros)> = Vec::new();
        let pattern = rng.gen_range(0..5);
        let mut t = 0;
        match pattern {
            0 => {}
            1 => {
                let len = *[SEC, 10 * SEC, MIN, 10 * MIN, HOUR, 2 * HOUR].choose(&mut rng).unwrap();
                outages.push((0, rng.gen_range(len / 2..=len)));
            }
            2 => {
                // flapping from the start
                for _ in 0..rng.gen_range(2..12) {
                    let down = rng.gen_range(SEC..5 * MIN);
                    let up = rng.gen_range(100 * MS..2 * MIN);
                    outages.push((t, t + down));
                    t += down + up;
                }
            }
            3 => {
                // up first, then outage(s)
                t = rng.gen_range(SEC..10 * MIN);
                for _ in 0..rng.gen_range(1..4) {
                    let down = rng.gen_range(10 * SEC..HOUR);
                    outages.push((t, t + down));
                    t += down + rng.gen_range(SEC..10 * MIN);
                }
            }
            _ => {
                let len = rng.gen_range(SEC..20 * MIN);
                outages.push((0, len));
            }
        }
        let t_up = outages.iter().map(|(_, b)| *b).max().unwrap_or(0);
        let outs = outages.clone();
        let mut link = Link::uniform(2 * MS, 200 * MS);
        let fast_lan = rng.gen_bool(0.3);
        if fast_lan {
            // round trips shorter than a late-returning send (see `linger` below)
            link = Link::uniform(0, 2 * MS);
        }
        link.dup_p = *[0.0, 0.0, 0.2].choose(&mut rng).unwrap();
        // an outage either swallows datagrams or makes the node's send_to fail (network unreachable)
        let outage_fails_sends = rng.gen_bool(0.35);
        net.set_fault(Box::new(move |rng, meta| {
            if outs.iter().any(|(a, b)| meta.now >= *a && meta.now < *b) {
                if outage_fails_sends && meta.from_socket {
                    Fate::failed()
                } else {
                    Fate::dropped()
                }
            } else {
                link.decide(rng, meta.from_socket)
            }
        }));

        info = info
            .with("contacts", n_contacts)
            .with("proper_contacts", proper)
            .with("routers", cfg.routers.len())
            .with("overlap_node_and_router", overlap)
            .with("outage_fails_sends", outage_fails_sends)
            .with("t_up_s", t_up / SEC);

        // ---- run
        net.set_send_yield(*[0.0, 0.0, 0.3, 1.0].choose(&mut rng).unwrap());
        // sends that return late (blocked socket, descheduled sender): the answer may be on its way,
        // or even delivered, before the sending task continues
        let linger = *[(0.0, 0), (0.0, 0), (0.0, 0), (0.5, 10 * MS), (1.0, 20 * MS)].choose(&mut rng).unwrap();
        net.set_send_linger(linger.0, linger.1);
        if linger.0 > 0.0 {
            report.count("runs_with_late_returning_sends");
        }
        let dht = spawn_node(&net, &cfg);
        report.evaluations += 1;
        report.distinct(format!(
            "contacts{}/proper{}/routers{}/overlap{}/pattern{}/ro{}",
            match n_contacts {
                0 => "0",
                1 => "1",
                2..=8 => "2-8",
                9..=20 => "9-20",
                _ => "21-40",
            },
            proper.min(2),
            use_routers,
            overlap.min(1),
            pattern,
            cfg.read_only
        ));

        // bound for a waiter: back-off slot + initial round + bucket rounds
        // (sends that return up to 20 ms late add at most 160 rounds x 8 sends x 20 ms; 60 s of slack)
        let bound = 660 * SEC + 500 * MS * n_contacts as u64 + if linger.0 > 0.0 { 60 * SEC } else { 0 };
        let horizon = t_up + bound + 30 * SEC;

        let waiters: Arc<Mutex<Vec<Waiter>>> = Arc::new(Mutex::new(Vec::new()));
        let n_waiters = rng.gen_range(1..=20);
        let mut tasks = Vec::new();
        // API calls and further bootstrapped() callers arriving in the very instant a datagram reaches
        // the node (e.g. the reply that completes the bootstrap), as callers on other threads would
        let hammer = if rng.gen_bool(0.6) {
            let h = crate::world::api_hammer(&net, &dht, addr, seed, *[0.05, 0.3, 1.0].choose(&mut rng).unwrap(), 2000);
            let (dht3, net3, waiters3) = (dht.clone(), net.clone(), waiters.clone());
            let mut orng = ChaCha8Rng::seed_from_u64(seed ^ 0xa115);
            let mut left = 12;
            net.add_observer(addr, move |_w| {
                if left > 0 && orng.gen_bool(0.1) {
                    left -= 1;
                    let yields = orng.gen_range(0..4);
                    let (dht4, net4, waiters4) = (dht3.clone(), net3.clone(), waiters3.clone());
                    tokio::spawn(async move {
                        for _ in 0..yields {
                            tokio::task::yield_now().await;
                        }
                        let called = net4.now();
                        let slot = {
                            let mut w = waiters4.lock().unwrap();
                            w.push(Waiter { called, resolved: None, gave_up: false });
                            w.len() - 1
                        };
                        let ok = dht4.bootstrapped().await;
                        waiters4.lock().unwrap()[slot].resolved = Some((net4.now(), ok));
                    });
                }
            });
            Some(h)
        } else {
            None
        };
        for _ in 0..n_waiters {
            let at = match rng.gen_range(0..4) {
                0 => 0,
                1 => rng.gen_range(0..=t_up.max(1)),
                _ => rng.gen_range(0..t_up + 100 * SEC),
            };
            let dht = dht.clone();
            let net2 = net.clone();
            let waiters = waiters.clone();
            // a third of the callers give up after a while (the future is dropped); whatever they were
            // told before that is judged like any other answer, giving up itself is not
            let patience: Option<Micros> = if rng.gen_bool(0.33) { Some(rng.gen_range(100 * MS..60 * SEC)) } else { None };
            tasks.push(tokio::spawn(async move {
                sleep_us(at).await;
                let called = net2.now();
                let slot = {
                    let mut w = waiters.lock().unwrap();
                    w.push(Waiter { called, resolved: None, gave_up: false });
                    w.len() - 1
                };
                match patience {
                    None => {
                        let ok = dht.bootstrapped().await;
                        waiters.lock().unwrap()[slot].resolved = Some((net2.now(), ok));
                    }
                    Some(p) => match tokio::time::timeout(Duration::from_micros(p), dht.bootstrapped()).await {
                        Ok(ok) => waiters.lock().unwrap()[slot].resolved = Some((net2.now(), ok)),
                        Err(_) => waiters.lock().unwrap()[slot].gave_up = true,
                    },
                }
            }));
        }

        // API liveness probes along the way
        let probes = 6;
        let mut alive = true;
        for i in 0..probes {
            sleep_us(horizon / probes).await;
            alive &= api_alive(&mut report, &dht, &info, &format!("probe {i} at {} s", net.now() / SEC)).await;
            if !alive {
                break;
            }
        }
        settle().await;
        if let Some(h) = &hammer {
            let st = h.lock().unwrap();
            report.add("api_calls_racing_deliveries", st.calls);
            if let (Some((t, what)), true) = (st.failed.first(), alive) {
                report.violation(
                    "C15",
                    "api-dead",
                    format!("an API call issued in the instant of a delivery did not complete at {} ms: {what}", t / MS),
                    info.clone(),
                );
                alive = false;
            }
        }

        // ---- oracle
        let log = net.log();
        let first_reply = log
            .iter()
            .filter(|w| w.ev == Ev::Deliver && w.dst == addr)
            .find(|w| matches!(Krpc::parse(&w.data), Ok(k) if k.as_reply().is_some()))
            .map(|w| w.t);
        let sent_any = log.iter().any(|w| matches!(w.ev, Ev::Send | Ev::SendFail) && w.src == addr);
        let waiters = waiters.lock().unwrap().clone();

        if n_contacts == 0 {
            report.count("configs_without_contacts");
            if sent_any {
                report.violation("C15", "sends-without-contacts", "node without contacts sent datagrams", info.clone());
            }
            for w in &waiters {
                match w.resolved {
                    Some((t, true)) if t <= w.called + MS => report.count("waiters_resolved_immediately_without_contacts"),
                    other => report.violation(
                        "C15",
                        "no-contacts-not-immediate",
                        format!("with no contacts configured bootstrapped() called at {} us resolved {:?}", w.called, other),
                        info.clone(),
                    ),
                }
            }
        } else if alive {
            for w in &waiters {
                report.count("waiters");
                match w.resolved {
                    Some((t, ok)) => {
                        if !ok {
                            report.violation(
                                "C15",
                                "waiter-false",
                                format!("bootstrapped() called at {} s resolved false at {} s on a live node", w.called / SEC, t / SEC),
                                info.clone(),
                            );
                        }
                        match first_reply {
                            Some(fr) if t >= fr => report.count("waiters_resolved_after_first_reply"),
                            _ => report.violation(
                                "C15",
                                "resolved-before-any-reply",
                                format!(
                                    "bootstrapped() resolved at {} us but the first reply from a contact was delivered at {:?} us",
                                    t, first_reply
                                ),
                                info.clone(),
                            ),
                        }
                        if plain_only && proper > 0 {
                            let deadline = w.called.max(t_up) + bound;
                            report.maxi("slowest_waiter_after_responsive_s", t.saturating_sub(w.called.max(t_up)) / SEC);
                            if t > deadline {
                                report.violation(
                                    "C15",
                                    "waiter-late",
                                    format!("waiter called at {} s resolved at {} s, later than {} s after contacts became responsive at {} s", w.called / SEC, t / SEC, bound / SEC, t_up / SEC),
                                    info.clone(),
                                );
                            }
                        }
                    }
                    None if w.gave_up => report.count("waiters_that_gave_up"),
                    None => {
                        // a waiter that arrived late in the run (those started in the instant of a
                        // delivery can be that late) has no verdict before its own deadline
                        if plain_only && proper > 0 && net.now() <= w.called.max(t_up) + bound {
                            report.count("waiters_pending_before_their_deadline_no_verdict");
                        } else if plain_only && proper > 0 {
                            report.violation(
                                "C15",
                                "waiter-unresolved",
                                format!(
                                    "bootstrapped() called at {} s still pending at {} s; contacts responsive since {} s ({} proper of {} contacts, no routers)",
                                    w.called / SEC,
                                    net.now() / SEC,
                                    t_up / SEC,
                                    proper,
                                    n_contacts
                                ),
                                info.clone(),
                            );
                        } else {
                            report.count("waiters_pending_without_obligation");
                        }
                    }
                }
            }
            if plain_only && proper > 0 {
                report.count("plain_node_configs_with_deadline");
            }
            if overlap > 0 {
                report.count("configs_with_node_router_overlap");
            }
        }
        if idx < 3 {
            report.sample(
                info.clone().with(
                    "waiters",
                    waiters
                        .iter()
                        .take(5)
                        .map(|w| {
                            J::obj()
                                .with("called_s", w.called as f64 / 1e6)
                                .with("resolved_s", w.resolved.map(|r| J::from(r.0 as f64 / 1e6)).unwrap_or(J::Null))
                        })
                        .collect::<Vec<_>>(),
                ),
            );
        }
        for t in tasks {
            t.abort();
        }
        let events = wiremon::always_on(&mut report, &net, &[addr], &info);
        if let Some(h) = &hammer {
            // how often the race the hammer is there for was actually set up: API calls issued in the
            // very instant the bootstrap worker published a state change
            let st = h.lock().unwrap();
            for e in &events {
                if let btdht::verif::EventKind::BootstrapState { state } = e.kind {
                    if st.instants.contains(&net.micros_at(e.at)) {
                        report.count("bootstrap_state_changes_with_api_calls_in_the_same_instant");
                        if state == "Bootstrapped" {
                            report.count("bootstrap_completions_with_api_calls_in_the_same_instant");
                        }
                    }
                }
            }
        }
        report
    })
}

pub fn scenario_pub(ctx: &Ctx, idx: u64) -> Report {
    scenario(ctx, idx)
}

pub fn check(tier: Tier) -> Check {
    Check {
        id: "C15",
        level: "exploration",
        rule: "Builder configurations: 0..40 contacts given as nodes, routers (literal ip:port) or both; \
               each contact proper / silent / error-answering / garbage-answering; read-only on/off; IPv4/IPv6; \
               outage patterns (none, one outage of 1 s..2 h, flapping, up-then-down, random; datagrams vanish or send_to fails); 1..20 \
               bootstrapped() callers at random times, in 60 % of the runs also callers and bursts of get_state / \
               load_contacts / local_addr calls issued in the very instant a datagram reaches the node (racing \
               the bootstrap worker's state changes); 20 % duplicated datagrams in a third of the runs; in 40 % of the runs the node's send_to returns up to 20 ms \
               late (in 30 % round trips are below 4 ms, so answers arrive while the sender is still suspended in the send). Oracle: API liveness probes (get_state, \
               load_contacts, local_addr within 2 virtual seconds) six times per run; no traffic and \
               immediate resolution without contacts; no resolution before the first reply from a contact \
               was delivered; with plain-node contacts of which at least one answers properly every waiter \
               resolves true within 660 s + 0.5 s x contacts of max(call, end of last outage); panic \
               monitor. distinct_nontrivial = distinct (contact count class, proper contacts, routers, \
               overlap, outage pattern, read-only) configurations.",
        assumptions: vec![
            "routers are literal ip:port strings (no DNS)",
            "deadline bound = 512 s back-off slot + initial round (2.5 s + 0.5 s per contact) + 160 x 0.5 s bucket rounds, rounded up to 660 s + 0.5 s x contacts",
        ],
        deciding: vec!["C15"],
        streams: vec![Stream::new("bootstrap", tier.pick(3_600, 20_000), scenario)],
        require: vec![
            ("waiters", tier.pick(15_000, 80_000)),
            ("plain_node_configs_with_deadline", tier.pick(900, 5_000)),
            ("configs_without_contacts", tier.pick(120, 600)),
            ("configs_with_node_router_overlap", tier.pick(0, 0)),
            ("api_liveness_probes", tier.pick(12_000, 80_000)),
            ("api_calls_racing_deliveries", tier.pick(60_000, 400_000)),
            ("bootstrap_completions_with_api_calls_in_the_same_instant", tier.pick(1_200, 8_000)),
        ],
        exhaustive: false,
    }
}
