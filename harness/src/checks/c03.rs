//! C03 — searches never fabricate peers, tokens or announce targets on hostile networks.

use super::{replay_info, sseed, Check, Ctx, Stream};
use crate::gen;
use crate::json::J;
use crate::refcodec::{Body, Id, Krpc, Query, Reply};
use crate::runner::{Report, Tier};
use crate::searchbed::{SearchBed, SearchBedOpts};
use crate::searchmon::{self, Oracle, SearchSpec};
use crate::simnet::{run_sim, settle, sleep_us, Ev, Link, Micros, Net, Wire, MS, SEC};
use crate::wiremon;
use crate::world::{run_search, SearchResult};
use rand::seq::SliceRandom;
use rand::{Rng, SeedableRng};
use rand_chacha::ChaCha8Rng;
use std::net::{IpAddr, Ipv4Addr, Ipv6Addr, SocketAddr};
use std::sync::{Arc, Mutex};
use std::time::Duration;

#[derive(Clone, Copy, Debug, PartialEq, Eq, Hash)]
enum Forge {
    RandomTid,
    OtherSearchTid,
    MaintenanceTid,
    Replay,
    TimedOutTid,
    RightTidOtherSource,
    RightTidSameSource,
    WrongLength,
    RightPrefixWrongMessage,
}

const FORGES: &[Forge] = &[
    Forge::RandomTid,
    Forge::OtherSearchTid,
    Forge::MaintenanceTid,
    Forge::Replay,
    Forge::TimedOutTid,
    Forge::RightTidOtherSource,
    Forge::RightTidSameSource,
    Forge::WrongLength,
    Forge::RightPrefixWrongMessage,
];

fn forged_value(n: u32, v6: bool) -> SocketAddr {
    if v6 {
        SocketAddr::new(IpAddr::V6(Ipv6Addr::new(0xfdfe, 0, 0, 0, 0, 0, (n >> 16) as u16, n as u16)), 666)
    } else {
        SocketAddr::new(IpAddr::V4(Ipv4Addr::new(241, (n >> 16) as u8, (n >> 8) as u8, n as u8)), 666)
    }
}

#[derive(Clone, Debug)]
struct ForgeRecord {
    t: Micros,
    kind: Forge,
    search: Option<Id>,
}

/// Watches the wire and injects forged responses until `stop` is set.
async fn forger(
    net: Net,
    node: SocketAddr,
    node_id: Id,
    v6: bool,
    seed: u64,
    stop: Arc<Mutex<bool>>,
    records: Arc<Mutex<Vec<ForgeRecord>>>,
    intensity: Micros,
) {
    let mut rng = ChaCha8Rng::seed_from_u64(seed ^ 0xf0f0);
    let mut n: u32 = 0;
    let mut cursor = 0usize;
    let mut own_queries: Vec<Wire> = Vec::new();
    let mut delivered_replies: Vec<Wire> = Vec::new();
    loop {
        sleep_us(rng.gen_range(MS..intensity)).await;
        if *stop.lock().unwrap() {
            break;
        }
        let new = net.log_since(cursor);
        cursor += new.len();
        for w in new {
            if w.src == node && w.ev == Ev::Send && w.from_socket {
                own_queries.push(w);
            } else if w.dst == node && w.ev == Ev::Deliver && !matches!(w.src.ip(), IpAddr::V4(ip) if ip.octets()[0] == 66) {
                delivered_replies.push(w);
            }
        }
        if own_queries.len() > 400 {
            own_queries.drain(..200);
        }
        if delivered_replies.len() > 200 {
            delivered_replies.drain(..100);
        }
        let now = net.now();
        let parsed: Vec<(&Wire, Krpc)> = own_queries
            .iter()
            .filter_map(|w| Krpc::parse(&w.data).ok().map(|k| (w, k)))
            .filter(|(_, k)| k.is_query())
            .collect();
        let get_peers: Vec<&(&Wire, Krpc)> = parsed.iter().filter(|(_, k)| k.method() == Some("get_peers")).collect();
        let kind = *FORGES.choose(&mut rng).unwrap();
        n += 1;

        let mut reply = Reply {
            id: gen::rand_id(&mut rng),
            token: Some(format!("FT{n}").into_bytes()),
            values: (0..rng.gen_range(1..4)).map(|j| forged_value(n * 4 + j, v6)).collect(),
            ..Default::default()
        };
        // hostile node lists
        let mut nodes = Vec::new();
        for _ in 0..rng.gen_range(0..9) {
            let id = match rng.gen_range(0..4) {
                0 => node_id,
                1 => reply.id,
                _ => gen::rand_id(&mut rng),
            };
            let addr = match rng.gen_range(0..4) {
                0 => node,
                1 => {
                    if v6 {
                        SocketAddr::new(Ipv6Addr::UNSPECIFIED.into(), 0)
                    } else {
                        SocketAddr::new(Ipv4Addr::UNSPECIFIED.into(), 0)
                    }
                }
                _ => {
                    if v6 {
                        gen::addr_v6(&mut rng)
                    } else {
                        gen::addr_v4(&mut rng)
                    }
                }
            };
            nodes.push((id, addr));
        }
        if rng.gen_bool(0.3) && !nodes.is_empty() {
            let dup = nodes[0];
            nodes.push(dup);
        }
        // entries built around the target of one of the running searches: one id under several
        // addresses, the farthest / the closest possible id
        if rng.gen_bool(0.3) {
            if let Some((_, k)) = get_peers.choose(&mut rng) {
                if let Body::Query { q: Query::GetPeers { info_hash, .. }, .. } = &k.body {
                    nodes.extend(crate::world::hostile_entries(info_hash, n as u32, v6));
                }
            }
        }
        if v6 {
            reply.nodes6 = nodes;
        } else {
            reply.nodes = nodes;
        }

        let fresh_src = if v6 {
            SocketAddr::new(IpAddr::V6(Ipv6Addr::new(0xfd66, 0, 0, 0, 0, 0, 0, n as u16)), 6666)
        } else {
            SocketAddr::new(IpAddr::V4(Ipv4Addr::new(66, (n >> 16) as u8, (n >> 8) as u8, n as u8)), 6666)
        };
        let search_of = |k: &Krpc| match &k.body {
            Body::Query {
                q: Query::GetPeers { info_hash, .. },
                ..
            } => Some(*info_hash),
            _ => None,
        };

        let (tid, src, search): (Vec<u8>, SocketAddr, Option<Id>) = match kind {
            Forge::RandomTid => (gen::bytes(&mut rng, 8), fresh_src, None),
            Forge::OtherSearchTid | Forge::RightTidOtherSource => match get_peers.choose(&mut rng) {
                Some((w, k)) if now < w.t + 1400 * MS => (k.t.clone(), fresh_src, search_of(k)),
                _ => continue,
            },
            Forge::RightTidSameSource => match get_peers.choose(&mut rng) {
                Some((w, k)) if now < w.t + 1400 * MS => (k.t.clone(), w.dst, search_of(k)),
                _ => continue,
            },
            Forge::MaintenanceTid => match parsed.iter().filter(|(_, k)| k.method() == Some("find_node")).last() {
                Some((w, k)) => (k.t.clone(), if rng.gen_bool(0.5) { w.dst } else { fresh_src }, None),
                None => continue,
            },
            Forge::Replay => match delivered_replies.choose(&mut rng) {
                Some(w) => match Krpc::parse(&w.data) {
                    Ok(k) if k.as_reply().is_some() => (k.t.clone(), w.src, None),
                    _ => continue,
                },
                None => continue,
            },
            Forge::TimedOutTid => match get_peers.iter().find(|(w, _)| now > w.t + 1600 * MS) {
                Some((w, k)) => (k.t.clone(), w.dst, search_of(k)),
                None => continue,
            },
            Forge::WrongLength => match get_peers.choose(&mut rng) {
                Some((_, k)) => {
                    let mut t = k.t.clone();
                    match rng.gen_range(0..4) {
                        0 => {
                            t.pop();
                        }
                        1 => t.push(0),
                        2 => t.clear(),
                        _ => t.extend_from_slice(&[0; 8]),
                    }
                    (t, fresh_src, search_of(k))
                }
                None => continue,
            },
            Forge::RightPrefixWrongMessage => match get_peers.choose(&mut rng) {
                Some((_, k)) if k.t.len() == 8 => {
                    let mut t = k.t.clone();
                    t[7] ^= 0x55;
                    t[6] ^= 0xaa;
                    (t, fresh_src, search_of(k))
                }
                _ => continue,
            },
        };
        let bytes = Krpc::reply(tid, reply).encode();
        net.send_from_after(src, node, bytes, rng.gen_range(0..50 * MS));
        records.lock().unwrap().push(ForgeRecord { t: now, kind, search });
    }
}

fn scenario(ctx: &Ctx, idx: u64) -> Report {
    let ctx = *ctx;
    run_sim(move || async move {
        let mut report = Report::default();
        let seed = sseed(&ctx, "hostile", idx);
        let mut rng = ChaCha8Rng::seed_from_u64(seed);
        let info = replay_info("C03", "hostile", &ctx, idx);
        let target: Id = gen::rand_id(&mut rng);
        let mut opts = SearchBedOpts::random(&mut rng, 150);
        opts.peers_max = *[1usize, 3].choose(&mut rng).unwrap();
        let bed = SearchBed::new(seed, &mut rng, opts.clone(), &target).await;
        // nodes that hand out very long tokens (a fifth of the worlds, a third of their replies)
        if rng.gen_bool(0.2) {
            bed.world.lock().unwrap().long_tokens = 0.33;
            report.count("worlds_handing_out_very_long_tokens");
        }
        report.evaluations += 1;
        if !bed.bootstrapped {
            report.count("precondition_miss_not_bootstrapped");
            return report;
        }
        // message-level faults
        let drop_p = *[0.0, 0.1, 0.3, 0.5].choose(&mut rng).unwrap();
        let max_delay = *[100 * MS, 800 * MS, 2 * SEC, 5 * SEC].choose(&mut rng).unwrap();
        bed.net.set_link(Link {
            lat_lo: 0,
            lat_hi: max_delay,
            drop_p,
            dup_p: 0.15,
            fail_p: 0.0,
        });

        let stop = Arc::new(Mutex::new(false));
        let records = Arc::new(Mutex::new(Vec::new()));
        let forger_task = tokio::spawn(forger(
            bed.net.clone(),
            bed.addr,
            bed.id,
            bed.v6,
            seed,
            stop.clone(),
            records.clone(),
            *[20 * MS, 100 * MS, 400 * MS].choose(&mut rng).unwrap(),
        ));

        let n_searches = rng.gen_range(1..=6);
        let log_mark = bed.net.log_len();
        let mut handles = Vec::new();
        let mut hashes = Vec::new();
        for s in 0..n_searches {
            let ih = if s == 0 { target } else { gen::rand_id(&mut rng) };
            let announce = rng.gen_bool(0.6);
            hashes.push((ih, announce));
            let net = bed.net.clone();
            let dht = bed.dht.clone();
            let delay = rng.gen_range(0..2 * SEC) * (s as u64).min(1);
            handles.push(tokio::spawn(async move {
                sleep_us(delay).await;
                run_search(&net, &dht, ih, announce, Duration::from_secs(900)).await
            }));
        }
        let mut results: Vec<SearchResult> = Vec::new();
        for h in handles {
            results.push(h.await.unwrap_or_default());
        }
        // keep forging a little after the streams closed
        sleep_us(2 * SEC).await;
        *stop.lock().unwrap() = true;
        let _ = forger_task.await;
        settle().await;

        let log = bed.net.log_since(log_mark);
        let records = records.lock().unwrap().clone();
        for ((ih, announce), result) in hashes.iter().zip(results.iter()) {
            let spec = SearchSpec {
                node: bed.addr,
                node_id: bed.id,
                v6: bed.v6,
                info_hash: *ih,
                announce: *announce,
                announce_port: opts.announce_port,
                result,
            };
            let mut sh = searchmon::shadow(&log, &spec);
            report.count("searches");
            if n_searches > 1 {
                report.count("concurrent_searches");
            }
            let forged_yielded = result
                .items
                .iter()
                .filter(|(_, a)| matches!(a.ip(), IpAddr::V4(ip) if ip.octets()[0] == 241) || matches!(a.ip(), IpAddr::V6(ip) if ip.segments()[0] == 0xfdfe))
                .count();
            report.add("forged_values_legitimately_yielded_right_tid", forged_yielded as u64);
            let mut oracle = Oracle {
                report: &mut report,
                info: info.clone().with("drop_p", drop_p).with("max_delay_ms", max_delay / MS),
                remap: &[],
            };
            oracle.check_values(&sh, &spec);
            oracle.check_announces(&sh, &spec);
            oracle.check_timing(&mut sh, &spec, bed.net.now());
            // phase of each forgery relative to this search
            for r in records.iter().filter(|r| r.search.is_none() || r.search == Some(*ih)) {
                let phase = match (sh.first_query, sh.endgame_start, result.ended) {
                    (Some(f), _, _) if r.t < f => "before",
                    (_, _, Some(e)) if r.t > e => "after-close",
                    (_, Some(g), _) if r.t >= g => "end-game",
                    _ => "iterating",
                };
                report.distinct(format!("{:?}/{phase}", r.kind));
            }
            if idx < 2 {
                report.sample(
                    searchmon::sample(&sh, &spec)
                        .with("drop_p", drop_p)
                        .with("max_delay_ms", max_delay / MS)
                        .with("forgeries_injected", records.len())
                        .with("concurrent_searches", n_searches as u64),
                );
            }
        }
        for r in &records {
            report.count(&format!("forged_{:?}", r.kind));
        }
        report.add("forgeries_injected", records.len() as u64);
        wiremon::always_on(&mut report, &bed.net, &[bed.addr], &info);
        let alive = crate::world::within(Duration::from_secs(5), bed.dht.get_state()).await;
        if !matches!(alive, Some(Some(_))) {
            report.cross("C14", "node-dead", "get_state() does not complete after the hostile run", info.clone());
        }
        let _ = J::Null;
        report
    })
}

pub fn scenario_pub(ctx: &Ctx, idx: u64) -> Report {
    scenario(ctx, idx)
}

pub fn check(tier: Tier) -> Check {
    Check {
        id: "C03",
        level: "fault_enumeration",
        rule: "1..6 concurrent searches (different info-hashes, announcing or not) on a real node against a \
               scripted world of 1..150 nodes with unique tagged peers and tokens per reply, under loss \
               {0,10,30,50 %}, delays up to {0.1,0.8,2,5} s, 15 % duplication and the reordering these induce, \
               while a forger that sees all traffic injects responses of 9 classes (random tid; tid of another \
               search's outstanding query; tid of refresh/bootstrap queries; replay of a delivered response; \
               timed-out tid; right tid from another / the queried source; tid of wrong length; right activity \
               prefix with wrong message id) carrying fresh peers, tokens and hostile node lists (own id/address, \
               duplicates, unroutable). Oracle: wire-only shadow - every stream item must be covered, with \
               multiplicity, by values of responses whose tid was outstanding at delivery; every announce must \
               go to the source of an accepted token-bearing response with its latest token, at most 8, none if \
               not requested. distinct_nontrivial = distinct (forgery class, search phase at injection) pairs.",
        assumptions: vec![
            "a response with the right transaction id from a different source counts as an answer (the statement binds answers to transaction ids, not to sources)",
        ],
        deciding: vec!["C03"],
        streams: vec![Stream::new("hostile", tier.pick(3_000, 12_000), scenario)],
        require: vec![
            ("searches", tier.pick(2_500, 15_000)),
            ("concurrent_searches", tier.pick(2_000, 12_000)),
            ("forgeries_injected", tier.pick(25_000, 150_000)),
            ("stream_items_checked", tier.pick(2_500, 15_000)),
            ("late_or_replayed_responses_ignored", tier.pick(1_000, 6_000)),
            ("announces_checked", tier.pick(1_000, 6_000)),
            ("forged_values_legitimately_yielded_right_tid", tier.pick(100, 600)),
        ],
        exhaustive: false,
    }
}
