//! C18 — table refresh keeps one steady cadence however often the node re-bootstraps.
//!
//! Oracle: sliding-window counter over the hook event log (`RefreshRound`, `BootstrapCompleted`).

use super::{replay_info, sseed, Check, Ctx, Stream};
use crate::bed::{node_addr, world_addr, world_ids};
use crate::gen;
use crate::json::J;
use crate::runner::{Report, Tier};
use crate::simnet::{run_sim, sleep_us, Fate, Link, Micros, Net, HOUR, MIN, MS, SEC};
use crate::wiremon;
use crate::world::{spawn_node, NodeCfg, WNode, World};
use btdht::verif::EventKind;
use rand::seq::SliceRandom;
use rand::{Rng, SeedableRng};
use rand_chacha::ChaCha8Rng;
use std::collections::HashSet;
use std::net::SocketAddr;

const REFRESH_INTERVAL: Micros = 6 * SEC;

/// Check `rounds in [t, t+W] <= W/6s + 1 + completions in [t, t+W]` for every window starting at a
/// refresh round. Returns the worst (count, allowed, start) if violated.
pub fn window_violation(rounds: &[Micros], completions: &[Micros], w: Micros) -> Option<(usize, usize, Micros)> {
    let mut hi = 0;
    let mut c_lo = 0;
    let mut c_hi = 0;
    let mut worst: Option<(usize, usize, Micros)> = None;
    for (lo, &start) in rounds.iter().enumerate() {
        while hi < rounds.len() && rounds[hi] <= start + w {
            hi += 1;
        }
        while c_lo < completions.len() && completions[c_lo] < start {
            c_lo += 1;
        }
        if c_hi < c_lo {
            c_hi = c_lo;
        }
        while c_hi < completions.len() && completions[c_hi] <= start + w {
            c_hi += 1;
        }
        let count = hi - lo;
        let allowed = (w / REFRESH_INTERVAL) as usize + 1 + (c_hi - c_lo);
        if count > allowed {
            let excess = count - allowed;
            if worst.map(|(c, a, _)| excess > c - a).unwrap_or(true) {
                worst = Some((count, allowed, start));
            }
        }
    }
    worst
}

fn scenario(ctx: &Ctx, idx: u64) -> Report {
    let ctx = *ctx;
    run_sim(move || async move {
        let mut report = Report::default();
        let seed = sseed(&ctx, "cadence", idx);
        let mut rng = ChaCha8Rng::seed_from_u64(seed);
        let info = replay_info("C18", "cadence", &ctx, idx);
        let net = Net::new(seed);
        let v6 = rng.gen_bool(0.3);
        let addr = node_addr(v6, 1);
        let id = gen::rand_id(&mut rng);

        // Small world: fewer than 10 good nodes => the node re-bootstraps every ~5 s. Sometimes a
        // larger one (no re-bootstrap except after outages).
        let world_size = if rng.gen_bool(0.75) { rng.gen_range(1..9) } else { rng.gen_range(12..40) };
        let ids = world_ids(&mut rng, world_size, &id, 0.3);
        let mut nodes: Vec<WNode> = ids
            .into_iter()
            .enumerate()
            .map(|(i, wid)| WNode::new(wid, world_addr(v6, i as u32)))
            .collect();
        // some nodes never answer: bootstrap rounds then end by the worker's own timeouts
        if world_size > 1 && rng.gen_bool(0.4) {
            for n in nodes.iter_mut().skip(1) {
                if rng.gen_bool(0.4) {
                    n.silent_from = 0;
                }
            }
        }
        let contacts: Vec<_> = nodes.iter().take(rng.gen_range(1..=world_size.min(8))).map(|n| n.addr).collect();
        let owned: HashSet<_> = nodes.iter().map(|n| n.addr).collect();
        let all_addrs: Vec<SocketAddr> = nodes.iter().map(|n| n.addr).collect();
        let mut world = World::new(nodes);
        world.keep_served = false;
        net.add_actor(move |a| owned.contains(a), world);

        // Outages: the whole network is unreachable during these windows.
        let hours = ctx.tier.pick(rng.gen_range(1..=3), rng.gen_range(2..=24)) as u64;
        let total = hours * HOUR;
        let mut outages: Vec<(Micros, Micros)> = Vec::new();
        let n_out = rng.gen_range(0..6);
        for _ in 0..n_out {
            let start = rng.gen_range(0..total);
            let len = match rng.gen_range(0..3) {
                0 => rng.gen_range(SEC..30 * SEC),
                1 => rng.gen_range(MIN..20 * MIN),
                _ => rng.gen_range(20 * MIN..2 * HOUR),
            };
            outages.push((start, start + len));
        }
        let outs = outages.clone();
        let mut link = Link::uniform(2 * MS, *[120 * MS, 120 * MS, 700 * MS, 1300 * MS].choose(&mut rng).unwrap());
        // send failures: some destinations can never be sent to (firewall rule, unroutable address
        // learnt by hearsay: send_to returns an error), and any send may fail now and then
        let unsendable: HashSet<SocketAddr> = if rng.gen_bool(0.35) && all_addrs.len() > 1 {
            let k = rng.gen_range(1..=2usize.min(all_addrs.len() - 1));
            all_addrs[1..].choose_multiple(&mut rng, k).copied().collect()
        } else {
            HashSet::new()
        };
        link.fail_p = *[0.0, 0.0, 0.02, 0.2].choose(&mut rng).unwrap();
        let n_unsendable = unsendable.len();
        net.set_fault(Box::new(move |rng, meta| {
            if meta.from_socket && unsendable.contains(&meta.dst) {
                Fate::failed()
            } else if outs.iter().any(|(a, b)| meta.now >= *a && meta.now < *b) {
                Fate::dropped()
            } else {
                link.decide(rng, meta.from_socket)
            }
        }));
        net.set_log_enabled(false);
        // injected scheduling points: the node's sends may yield, so that the bootstrap worker can
        // run while the handler is in the middle of a refresh round or a search
        let yield_p = *[0.0, 0.0, 0.2, 1.0].choose(&mut rng).unwrap();
        net.set_send_yield(yield_p);
        // sends that return late: the handler stays suspended in a send while deadlines pass
        let linger = *[(0.0, 0), (0.0, 0), (0.3, 50 * MS), (1.0, 5 * MS), (1.0, 400 * MS), (0.03, 30 * SEC)].choose(&mut rng).unwrap();
        net.set_send_linger(linger.0, linger.1);
        if linger.1 > 6 * SEC {
            report.count("nodes_whose_sends_may_return_more_than_one_refresh_interval_late");
        }

        let mut cfg = NodeCfg::new(addr);
        cfg.id = Some(id);
        cfg.read_only = rng.gen_bool(0.5);
        cfg.nodes = contacts;
        let dht = spawn_node(&net, &cfg);
        report.evaluations += 1;
        if n_unsendable > 0 {
            report.count("runs_with_unsendable_destinations");
        }
        if rng.gen_bool(0.3) {
            crate::world::api_hammer(&net, &dht, addr, seed, 0.05, 100_000);
        }

        // occasional searches: their 1.5 s timers interleave with the refresh timer. Some are
        // started at the very instant a datagram reaches the node (API call and network event in
        // the same tick, in either order).
        let with_searches = rng.gen_bool(0.6);
        if with_searches {
            let (net2, dht2) = (net.clone(), dht.clone());
            let mut srng = ChaCha8Rng::seed_from_u64(seed ^ 0x5ea);
            tokio::spawn(async move {
                loop {
                    sleep_us(srng.gen_range(SEC..3 * MIN)).await;
                    let ih = gen::rand_id(&mut srng);
                    let _ = crate::world::run_search(&net2, &dht2, ih, srng.gen_bool(0.5), std::time::Duration::from_secs(600)).await;
                }
            });
            // at most one aligned search per `gap` of virtual time (a search's own traffic must not
            // trigger further searches without bound)
            let aligned = rng.gen_bool(0.6);
            if aligned {
                let gap = *[3 * SEC, 20 * SEC, 2 * MIN].choose(&mut rng).unwrap();
                let dht3 = dht.clone();
                let mut orng = ChaCha8Rng::seed_from_u64(seed ^ 0xa119);
                let mut last: Micros = 0;
                net.add_observer(addr, move |w| {
                    if w.t >= last + gap && orng.gen_bool(0.3) {
                        last = w.t;
                        let ih = btdht::InfoHash::from(gen::rand_id(&mut orng));
                        let mut stream = dht3.search(ih, false);
                        tokio::spawn(async move {
                            use futures_util::StreamExt;
                            while stream.next().await.is_some() {}
                        });
                    }
                });
            }
        }
        let mut rounds: Vec<Micros> = Vec::new();
        let mut completions: Vec<Micros> = Vec::new();
        let mut max_pending = 0usize;
        let mut violated = false;
        let step = 10 * MIN;
        let mut now = 0;
        while now < total && !violated {
            sleep_us(step).await;
            now += step;
            for e in btdht::verif::take_events() {
                let t = net.micros_at(e.at);
                match e.kind {
                    EventKind::RefreshRound { pending_timers } => {
                        rounds.push(t);
                        max_pending = max_pending.max(pending_timers);
                    }
                    EventKind::BootstrapCompleted => completions.push(t),
                    _ => {}
                }
            }
            for w in [12 * SEC, MIN, 10 * MIN, now] {
                if let Some((count, allowed, start)) = window_violation(&rounds, &completions, w) {
                    report.violation(
                        "C18",
                        "refresh-rate",
                        format!(
                            "{count} refresh rounds in the {} s window starting at {} s (allowed {allowed} = window/6 s + 1 + bootstrap completions in the window); {} bootstrap completions so far",
                            w / SEC,
                            start / SEC,
                            completions.len()
                        ),
                        info.clone()
                            .with("window_s", w / SEC)
                            .with("window_start_s", start / SEC)
                            .with("rounds", count)
                            .with("allowed", allowed),
                    );
                    violated = true;
                    break;
                }
            }
            // No searches run in this scenario, so at most the chain's own timer may be pending
            // when a round starts.
            if max_pending > 1 && !with_searches && !violated {
                report.violation(
                    "C18",
                    "pending-timers-grow",
                    format!(
                        "{max_pending} scheduled checks pending at the start of a refresh round although no search is running ({} bootstrap completions so far)",
                        completions.len()
                    ),
                    info.clone(),
                );
                violated = true;
            }
        }
        report.add("refresh_rounds_observed", rounds.len() as u64);
        report.add("bootstrap_completions_observed", completions.len() as u64);
        report.add("virtual_hours_simulated", now / HOUR);
        report.maxi("most_rebootstrap_cycles_in_one_run", completions.len() as u64);
        report.maxi("max_pending_timers_at_round_start", max_pending as u64);
        report.distinct(format!(
            "world{}/outages{}/yield{}/searches{}/cycles~{}",
            world_size,
            n_out,
            yield_p,
            with_searches,
            match completions.len() {
                0..=1 => "0-1".to_owned(),
                2..=9 => "2-9".to_owned(),
                n => format!("1e{}", (n as f64).log10().floor()),
            }
        ));
        if idx < 3 {
            report.sample(
                J::obj()
                    .with("world_size", world_size)
                    .with("virtual_hours", hours)
                    .with("outages_s", outages.iter().map(|(a, b)| J::Arr(vec![J::from(a / SEC), J::from(b / SEC)])).collect::<Vec<_>>())
                    .with("refresh_rounds", rounds.len())
                    .with("bootstrap_completions", completions.len())
                    .with("first_round_times_s", rounds.iter().take(8).map(|t| J::from(*t as f64 / 1e6)).collect::<Vec<_>>()),
            );
        }
        if rounds.len() < 10 {
            report.count("runs_with_hardly_any_refresh");
        }
        let alive = crate::world::within(std::time::Duration::from_secs(5), dht.get_state()).await;
        if !matches!(alive, Some(Some(_))) {
            report.cross("C15", "node-dead", "get_state() does not complete at the end of the run", info.clone());
        }
        let _ = wiremon::MAX_DATAGRAM;
        report
    })
}

pub fn check(tier: Tier) -> Check {
    Check {
        id: "C18",
        level: "exploration",
        rule: "One real node with 1..8 (75 %) or 12..40 scripted contacts (fewer than 10 good nodes => it \
               re-bootstraps about every 5 s), 0..5 network outages of seconds to 2 hours, run for 1..3 \
               (quick) / 2..24 (thorough) virtual hours. The hook log of refresh rounds and bootstrap \
               completions is checked every 10 virtual minutes with sliding windows of 60 s, 10 min and the \
               whole run: rounds <= window/6 s + 1 + completions in the window; and with no search running \
               at most one scheduled check may be pending when a round starts. distinct_nontrivial = \
               distinct (world size, number of outages, order of magnitude of re-bootstrap cycles).",
        assumptions: vec![
            "refresh rounds are observed through the guarded hook in TableRefresh::continue_refresh (rounds that ping nobody leave no trace on the wire)",
        ],
        deciding: vec!["C18"],
        streams: vec![Stream::new("cadence", tier.pick(96, 480), scenario).budget(tier.pick(600.0, 3000.0), tier.pick(96, 200))],
        require: vec![
            ("refresh_rounds_observed", tier.pick(20_000, 1_000_000)),
            ("bootstrap_completions_observed", tier.pick(5_000, 200_000)),
        ],
        exhaustive: false,
    }
}
