//! C05 — each well-formed query gets exactly one correct reply; nothing else is answered.
//!
//! Oracle: exactly-once matcher over the wire log. Every injected datagram comes from its own
//! source address, so "the datagrams the node sent to that address" are exactly its answers.

use super::{replay_info, sseed, Check, Ctx, Stream};
use crate::bed::{Bed, BedOpts};
use crate::gen;
use crate::hostile::{Class, Hostile};
use crate::json::{hex, J};
use crate::refcodec::{self, Body, Id, Krpc, Query, Reply, Want, B};
use crate::runner::{Report, Tier};
use crate::simnet::{run_sim, settle, sleep_us, Actor, Ev, Link, Net, MS, SEC};
use crate::wiremon;
use crate::world::{spawn_node, NodeCfg};
use rand::seq::SliceRandom;
use rand::{Rng, SeedableRng};
use rand_chacha::ChaCha8Rng;
use std::collections::{HashMap, HashSet};
use std::net::SocketAddr;

#[derive(Clone, Debug)]
enum Expect {
    /// A well-formed query: exactly one reply per delivered copy.
    Reply(QueryInfo),
    /// Anything that must never be answered.
    Nothing(&'static str),
    /// Hostile bytes that may or may not be a query for btdht: 0 or 1 answers, echoing the tid.
    Ambiguous,
}

#[derive(Clone, Debug)]
struct QueryInfo {
    msg: Krpc,
    /// For announce_peer: is the token one the node issued to this IP (within 10 minutes)?
    token_right: bool,
}

struct Injected {
    src: SocketAddr,
    bytes: Vec<u8>,
    expect: Expect,
    wire_id: u64,
}

fn family_ok(addr: &SocketAddr, v6: bool) -> bool {
    addr.is_ipv6() == v6
}

/// Content predicates for one reply to one query.
fn check_reply(
    report: &mut Report,
    bed_id: &Id,
    node_v6: bool,
    q: &QueryInfo,
    src: &SocketAddr,
    raw: &[u8],
    store_pairs: usize,
    info: &J,
) -> Option<&'static str> {
    let mut bad = |sig: &str, what: String| {
        report.violation(
            "C05",
            sig,
            format!(
                "{what}; query {:?} from {src}; reply {:?}",
                q.msg,
                String::from_utf8_lossy(&raw[..raw.len().min(200)])
            ),
            info.clone()
                .with("query_hex", hex(&q.msg.encode()))
                .with("reply_hex", hex(raw)),
        );
    };
    let Ok(value) = refcodec::decode(raw) else {
        bad("reply-undecodable", "reply is not valid bencode".into());
        return None;
    };
    let Ok(msg) = Krpc::from_value(&value) else {
        bad("reply-not-krpc", "reply is not a KRPC message".into());
        return None;
    };
    if msg.t != q.msg.t {
        bad(
            "tid-not-echoed",
            format!("transaction id not echoed: sent {} got {}", hex(&q.msg.t), hex(&msg.t)),
        );
    }
    let Body::Query { q: query, .. } = &q.msg.body else {
        return None;
    };
    let src_v6 = src.is_ipv6();
    match (&msg.body, query) {
        (Body::Query { .. }, _) => {
            bad("query-as-answer", "node answered with a query".into());
            None
        }
        (Body::Reply(r), Query::Ping) | (Body::Reply(r), Query::FindNode { .. }) => {
            if &r.id != bed_id {
                bad("wrong-id", format!("reply id {} is not the node's id", hex(&r.id)));
            }
            let rd = value.get("r").unwrap();
            if rd.get("token").is_some() || rd.get("values").is_some() {
                bad("token-or-values-in-plain-reply", "ping/find_node reply carries token or values".into());
            }
            if let Query::FindNode { want, .. } = query {
                check_families(&mut bad, r, *want, node_v6);
            }
            Some("reply")
        }
        (Body::Reply(r), Query::GetPeers { want, .. }) => {
            if &r.id != bed_id {
                bad("wrong-id", format!("reply id {} is not the node's id", hex(&r.id)));
            }
            match &r.token {
                Some(t) if t.len() == 20 => {}
                other => bad(
                    "get-peers-token",
                    format!("get_peers reply token is {:?}, want 20 bytes", other.as_ref().map(|t| t.len())),
                ),
            }
            check_families(&mut bad, r, *want, node_v6);
            if r.values.iter().any(|v| !family_ok(v, src_v6)) {
                bad("values-wrong-family", "get_peers reply carries a peer of the other address family".into());
            }
            Some("reply")
        }
        (Body::Reply(r), Query::AnnouncePeer { .. }) => {
            if &r.id != bed_id {
                bad("wrong-id", format!("reply id {} is not the node's id", hex(&r.id)));
            }
            let rd = value.get("r").unwrap();
            let _ = rd;
            if !q.token_right {
                bad("bad-token-acked", "announce_peer with a token the node did not issue to this IP was acknowledged".into());
            }
            Some("ack")
        }
        (Body::Error { code, .. }, Query::AnnouncePeer { .. }) => {
            match (*code, q.token_right) {
                (203, false) => Some("e203"),
                (202, true) => {
                    if store_pairs < 500 {
                        bad(
                            "202-with-room",
                            format!("announce refused with 202 although only {store_pairs} pairs were ever accepted"),
                        );
                    }
                    Some("e202")
                }
                (203, true) => {
                    bad("good-token-refused", "announce_peer with a fresh token issued to this IP was refused with 203".into());
                    None
                }
                (202, false) => {
                    bad("bad-token-202", "announce_peer with a bad token refused with 202 instead of 203".into());
                    None
                }
                (c, _) => {
                    bad("announce-error-code", format!("announce_peer refused with unexpected error code {c}"));
                    None
                }
            }
        }
        (Body::Error { code, .. }, _) => {
            bad("error-for-plain-query", format!("well-formed query answered with error {code}"));
            None
        }
    }
}

fn check_families(bad: &mut impl FnMut(&str, String), r: &Reply, want: Option<Want>, node_v6: bool) {
    let (want4, want6) = match want {
        None => (!node_v6, node_v6),
        Some(Want::N4) => (true, false),
        Some(Want::N6) => (false, true),
        Some(Want::Both) => (true, true),
    };
    if !want4 && !r.nodes.is_empty() {
        bad("nodes-not-requested", "reply carries IPv4 nodes that were not requested".into());
    }
    if !want6 && !r.nodes6.is_empty() {
        bad("nodes6-not-requested", "reply carries IPv6 nodes that were not requested".into());
    }
    if r.nodes.iter().any(|(_, a)| !a.is_ipv4()) || r.nodes6.iter().any(|(_, a)| !a.is_ipv6()) {
        bad("nodes-family-mixup", "node list contains an address of the wrong family".into());
    }
}

/// `hot`: ids under which peers are (probably) stored on the node; targets and info-hashes are drawn
/// from them in 40 % of the cases, so that replies depend on the store's contents.
fn random_query(rng: &mut ChaCha8Rng, t: Vec<u8>, token: Option<Vec<u8>>, hot: &[Id]) -> (Krpc, bool) {
    let id = gen::rand_id(rng);
    let pick = |rng: &mut ChaCha8Rng| -> Id {
        if !hot.is_empty() && rng.gen_bool(0.4) {
            *hot.choose(rng).unwrap()
        } else {
            gen::id(rng)
        }
    };
    match rng.gen_range(0..if token.is_some() { 6 } else { 4 }) {
        0 => (Krpc::query(t, id, Query::Ping), false),
        1 => (
            Krpc::query(
                t,
                id,
                Query::FindNode {
                    target: pick(rng),
                    want: gen::want(rng),
                },
            ),
            false,
        ),
        2 => (
            Krpc::query(
                t,
                id,
                Query::GetPeers {
                    info_hash: pick(rng),
                    want: gen::want(rng),
                },
            ),
            false,
        ),
        3 => {
            // announce with a token the node never issued
            let tok = match rng.gen_range(0..6) {
                5 => {
                    // very long tokens (the query still fits one datagram)
                    let n = rng.gen_range(100..1300);
                    gen::bytes(rng, n)
                }
                0 => Vec::new(),
                1 => gen::bytes(rng, 20),
                2 => gen::bytes(rng, 19),
                3 => gen::bytes(rng, 21),
                _ => {
                    let n = rng.gen_range(0..40);
                    gen::bytes(rng, n)
                }
            };
            let right = false;
            (
                Krpc::query(
                    t,
                    id,
                    Query::AnnouncePeer {
                        info_hash: pick(rng),
                        port: if rng.gen_bool(0.5) { None } else { Some(gen::port(rng)) },
                        token: tok,
                    },
                ),
                right,
            )
        }
        _ => (
            Krpc::query(
                t,
                id,
                Query::AnnouncePeer {
                    info_hash: pick(rng),
                    port: if rng.gen_bool(0.5) { None } else { Some(gen::port(rng)) },
                    token: token.unwrap(),
                },
            ),
            true,
        ),
    }
}

fn storm_scenario(ctx: &Ctx, idx: u64) -> Report {
    let ctx = *ctx;
    run_sim(move || storm(ctx, idx))
}

async fn storm(ctx: Ctx, idx: u64) -> Report {
    let mut report = Report::default();
    let seed = sseed(&ctx, "storm", idx);
    let mut rng = ChaCha8Rng::seed_from_u64(seed);
    let mut opts = BedOpts::random(&mut rng);
    opts.read_only = rng.gen_bool(0.2);
    let info = replay_info("C05", "storm", &ctx, idx);
    let mut bed = Bed::new(seed, &mut rng, &opts).await;
    report.evaluations += 1;
    bed.net.set_link(Link {
        lat_lo: MS,
        lat_hi: 80 * MS,
        drop_p: 0.0,
        dup_p: 0.1,
        fail_p: 0.0,
    });
    if !bed.bootstrapped && opts.world_size > 0 {
        report.count("bed_not_bootstrapped");
    }
    let hostile = Hostile::new();
    let node_v6 = bed.v6;
    let n_ips = 5u8;

    // Tokens per client IP (family, ip index) obtained from real get_peers exchanges.
    let mut tokens: HashMap<(bool, u8), Vec<u8>> = HashMap::new();
    let mut accepted_pairs: HashSet<(Id, SocketAddr)> = HashSet::new();
    // A node that has been idle for a long time (no get_peers / announce_peer served for half an hour
    // up to hours) must hand out a token that it accepts right away.
    if !opts.read_only && rng.gen_bool(0.3) {
        sleep_us(rng.gen_range(31 * 60 * SEC..8 * 3600 * SEC)).await;
        let fam = rng.gen_bool(0.5);
        let src = bed.client(fam, 0);
        let ih = gen::rand_id(&mut rng);
        let q = Krpc::query(gen::tid(&mut rng), gen::rand_id(&mut rng), Query::GetPeers { info_hash: ih, want: None });
        let tok = bed.ask(src, &q).await.first().and_then(|r| r.as_reply()).and_then(|r| r.token.clone());
        if let Some(tok) = tok {
            let src2 = bed.client(fam, 0);
            let a = Krpc::query(gen::tid(&mut rng), gen::rand_id(&mut rng), Query::AnnouncePeer { info_hash: ih, port: None, token: tok });
            let answers = bed.ask(src2, &a).await;
            report.count("announces_right_after_a_long_idle_period");
            let acked = answers.len() == 1 && answers[0].as_reply().is_some();
            if acked {
                accepted_pairs.insert((ih, src2));
            }
            if !acked {
                report.violation(
                    "C05",
                    "good-token-refused",
                    format!("after a long idle period a token handed out a moment ago to the same IP was not acknowledged: {:?}", answers.first().map(|k| &k.body)),
                    info.clone(),
                );
            }
        }
    }

    if !opts.read_only {
        for fam in [false, true] {
            for ip in 0..n_ips {
                let src = bed.client(fam, ip);
                let q = Krpc::query(
                    gen::tid(&mut rng),
                    gen::rand_id(&mut rng),
                    Query::GetPeers {
                        info_hash: gen::rand_id(&mut rng),
                        want: None,
                    },
                );
                let replies = bed.ask(src, &q).await;
                if let Some(tok) = replies.first().and_then(|r| r.as_reply()).and_then(|r| r.token.clone()) {
                    tokens.insert((fam, ip), tok);
                }
            }
        }
        if tokens.len() < 2 * n_ips as usize {
            report.violation(
                "C05",
                "no-token",
                format!("serving node handed out tokens for only {} of {} get_peers", tokens.len(), 2 * n_ips),
                info.clone(),
            );
        }
    }

    // ids under which peers are stored (see `random_query`)
    let mut hot: Vec<Id> = Vec::new();
    // Optionally push the store over its capacity so that 202 is exercised.
    let fill = !opts.read_only && rng.gen_bool(0.3);
    if fill {
        let ih = gen::rand_id(&mut rng);
        hot.push(ih);
        // peers of either family, whatever the node's own
        let fam = rng.gen_bool(0.5);
        let tok = tokens.get(&(fam, 0)).cloned().unwrap_or_default();
        // either 520 distinct pairs (the store fills up, 202 from then on) or the same few pairs
        // announced over and over (renewals must not use up capacity: always acknowledged)
        let renew_only = rng.gen_bool(0.4);
        for n in 1..=520u16 {
            let port = if renew_only { 1 + n % 3 } else { n };
            let src = bed.client(fam, 0);
            let q = Krpc::query(
                gen::tid(&mut rng),
                gen::rand_id(&mut rng),
                Query::AnnouncePeer {
                    info_hash: ih,
                    port: Some(port),
                    token: tok.clone(),
                },
            );
            let mark = bed.net.log_len();
            bed.inject(src, q.encode());
            sleep_us(bed.client_latency + MS).await;
            let answers = bed.sent_to(&src, mark);
            let qi = QueryInfo { msg: q, token_right: true };
            if answers.len() != 1 {
                report.violation(
                    "C05",
                    "reply-count",
                    format!("announce_peer during store fill got {} answers", answers.len()),
                    info.clone(),
                );
                continue;
            }
            let mut contact = src;
            contact.set_port(port);
            let outcome = check_reply(&mut report, &bed.id, node_v6, &qi, &src, &answers[0].data, accepted_pairs.len(), &info);
            if outcome == Some("ack") {
                accepted_pairs.insert((ih, contact));
            }
            if let Some(o) = outcome {
                report.count(&format!("outcome_{o}"));
            }
        }
        report.count(if renew_only { "store_renewal_scenarios" } else { "store_fill_scenarios" });
    }

    // The storm: everything is injected first (random times), matched afterwards.
    let n = ctx.tier.pick(600, 1500);
    let mut injected: Vec<Injected> = Vec::new();
    for _ in 0..n {
        let fam = rng.gen_bool(0.5);
        let ip = rng.gen_range(0..n_ips);
        let src = bed.client(fam, ip);
        let roll = rng.gen_range(0..100);
        let (bytes, expect) = if roll < 55 {
            let t = gen::tid(&mut rng);
            let (msg, right) = random_query(&mut rng, t, tokens.get(&(fam, ip)).cloned(), &hot);
            if let Body::Query { q: Query::AnnouncePeer { info_hash, .. }, .. } = &msg.body {
                if right && hot.len() < 64 {
                    hot.push(*info_hash);
                }
            }
            let mut bytes = msg.encode();
            // half of the queries carry keys outside BEP5 (client version, read-only flag)
            if rng.gen_bool(0.3) {
                let mut v = msg.to_value();
                if let B::Dict(items) = &mut v {
                    items.push((b"v".to_vec(), B::bytes("UT\x01\x02")));
                    if rng.gen_bool(0.5) {
                        items.push((b"ro".to_vec(), B::Int(0)));
                    }
                }
                bytes = v.canonical().encode();
            }
            let expect = if opts.read_only {
                Expect::Nothing("query to a read-only node")
            } else {
                Expect::Reply(QueryInfo { msg, token_right: right })
            };
            (bytes, expect)
        } else if roll < 70 {
            // responses: random tids, or tids the node itself has used recently
            let mut t = gen::tid(&mut rng);
            if rng.gen_bool(0.5) {
                let log = bed.net.log();
                let own: Vec<&crate::simnet::Wire> = log
                    .iter()
                    .rev()
                    .filter(|w| w.ev == Ev::Send && w.src == bed.addr)
                    .take(30)
                    .collect();
                if let Some(w) = own.choose(&mut rng) {
                    if let Ok(k) = Krpc::parse(&w.data) {
                        if k.is_query() {
                            t = k.t;
                        }
                    }
                }
            }
            let mut r = match gen::krpc(&mut rng).body {
                Body::Reply(r) => r,
                _ => Reply::default(),
            };
            r.id = gen::rand_id(&mut rng);
            (Krpc::reply(t, r).encode(), Expect::Nothing("response"))
        } else if roll < 80 {
            let t = gen::tid(&mut rng);
            let code = rng.gen_range(0..=255);
            (
                Krpc::error(t, code, &gen::utf8(&mut rng)).encode(),
                Expect::Nothing("error message"),
            )
        } else {
            let (bytes, class) = hostile.datagram(&mut rng);
            // A mutated query that the reference decoder refuses (malformed bencode) may still be
            // decoded by a more lenient decoder; whether such a datagram is "undecodable" is the
            // implementation's call, so anything that still carries a method key is ambiguous.
            let carries_method_key = bytes.windows(3).any(|w| w == b"1:q");
            let might_be_query = carries_method_key
                || match refcodec::decode_prefix(&bytes) {
                    Ok((v, _)) => v.get("y").and_then(B::as_bytes).map(|y| y == b"q").unwrap_or(false),
                    Err(_) => false,
                };
            let expect = if class == Class::Valid {
                // a valid message of unknown kind: classify by the reference parser
                match Krpc::parse(&bytes) {
                    Ok(k) if !k.is_query() => Expect::Nothing("valid non-query"),
                    _ => Expect::Ambiguous,
                }
            } else if might_be_query {
                Expect::Ambiguous
            } else {
                Expect::Nothing("undecodable / non-query datagram")
            };
            (bytes, expect)
        };
        // duplicates and random latency (reordering) come from the link model
        let wire_id = if rng.gen_bool(0.85) {
            bed.net.send_from(src, bed.addr, bytes.clone())
        } else {
            bed.inject(src, bytes.clone())
        };
        injected.push(Injected {
            src,
            bytes,
            expect,
            wire_id,
        });
        if rng.gen_bool(0.3) {
            sleep_us(rng.gen_range(0..30 * MS)).await;
        }
    }
    sleep_us(2 * SEC).await;
    settle().await;

    // ---- exactly-once matching
    let log = bed.net.log();
    let mut copies: HashMap<u64, usize> = HashMap::new();
    for w in log.iter().filter(|w| w.ev == Ev::Deliver && w.dst == bed.addr) {
        *copies.entry(w.id).or_default() += 1;
    }
    let mut answers: HashMap<SocketAddr, Vec<&crate::simnet::Wire>> = HashMap::new();
    for w in log.iter().filter(|w| w.ev == Ev::Send && w.src == bed.addr) {
        answers.entry(w.dst).or_default().push(w);
    }
    let injected_srcs: HashSet<SocketAddr> = injected.iter().map(|i| i.src).collect();

    // announces acknowledged during the storm (an upper bound of the pairs they added)
    let mut storm_acks = 0usize;
    for inj in &injected {
        let delivered = copies.get(&inj.wire_id).copied().unwrap_or(0);
        let got = answers.get(&inj.src).map(|v| v.as_slice()).unwrap_or(&[]);
        let ctx_info = || {
            info.clone()
                .with("injected_hex", hex(&inj.bytes))
                .with("src", inj.src.to_string())
                .with("copies_delivered", delivered)
        };
        match &inj.expect {
            Expect::Reply(q) => {
                report.count("wellformed_queries");
                report.distinct(format!(
                    "q/{}/{}/{}",
                    q.msg.method().unwrap_or("?"),
                    if inj.src.is_ipv6() { "src6" } else { "src4" },
                    match &q.msg.body {
                        Body::Query { q: Query::FindNode { want, .. }, .. }
                        | Body::Query { q: Query::GetPeers { want, .. }, .. } => format!("{want:?}"),
                        Body::Query { q: Query::AnnouncePeer { port, token, .. }, .. } => format!(
                            "{}{}tok{}",
                            if port.is_some() { "explicit" } else { "implied" },
                            if q.token_right { "-right-" } else { "-wrong-" },
                            token.len()
                        ),
                        _ => format!("t{}", q.msg.t.len()),
                    }
                ));
                if got.len() != delivered {
                    report.violation(
                        "C05",
                        "reply-count",
                        format!(
                            "well-formed {} delivered {delivered} time(s) got {} answer(s)",
                            q.msg.method().unwrap_or("?"),
                            got.len()
                        ),
                        ctx_info(),
                    );
                }
                if delivered > 1 {
                    report.count("duplicated_queries");
                }
                for w in got {
                    let outcome = check_reply(&mut report, &bed.id, node_v6, q, &inj.src, &w.data, accepted_pairs.len() + storm_acks, &info);
                    if outcome == Some("ack") {
                        storm_acks += 1;
                    }
                    if let Some(o) = outcome {
                        report.count(&format!("outcome_{o}"));
                    }
                }
            }
            Expect::Nothing(why) => {
                report.count("must_be_silent_datagrams");
                report.distinct(format!("silent/{why}"));
                if !got.is_empty() {
                    report.violation(
                        "C05",
                        format!("answered:{}", why.replace(' ', "-")),
                        format!(
                            "node sent {} datagram(s) in response to a {why}: {:?}",
                            got.len(),
                            String::from_utf8_lossy(&got[0].data[..got[0].data.len().min(160)])
                        ),
                        ctx_info(),
                    );
                }
            }
            Expect::Ambiguous => {
                report.count("ambiguous_datagrams");
                if got.len() > delivered {
                    report.violation(
                        "C05",
                        "reply-count",
                        format!("{} answers to {delivered} copies of one datagram", got.len()),
                        ctx_info(),
                    );
                }
            }
        }
    }
    // every response/error the node emitted must answer one of the injected datagrams
    for w in log.iter().filter(|w| w.ev == Ev::Send && w.src == bed.addr) {
        if let Ok(k) = Krpc::parse(&w.data) {
            if !k.is_query() && !injected_srcs.contains(&w.dst) && w.t > 0 {
                // fill-phase and token-phase clients are also scripted clients of this scenario
                let is_client = match w.dst {
                    SocketAddr::V4(a) => a.ip().octets()[0] == 30,
                    SocketAddr::V6(a) => a.ip().segments()[1] == 9 || a.ip().to_ipv4_mapped().map(|m| m.octets()[0] == 30).unwrap_or(false),
                };
                if !is_client {
                    report.violation(
                        "C05",
                        "unsolicited-reply",
                        format!("node sent a response/error to {} which never sent it a query", w.dst),
                        info.clone().with("datagram_hex", hex(&w.data)),
                    );
                }
            }
        }
    }
    if idx < 2 {
        report.sample(
            J::obj()
                .with("read_only", opts.read_only)
                .with("ipv6", opts.v6)
                .with("world_size", opts.world_size)
                .with("datagrams_injected", injected.len())
                .with(
                    "first_injected",
                    injected
                        .iter()
                        .take(3)
                        .map(|i| J::s(String::from_utf8_lossy(&i.bytes[..i.bytes.len().min(100)]).into_owned()))
                        .collect::<Vec<_>>(),
                ),
        );
    }
    wiremon::always_on(&mut report, &bed.net, &[bed.addr], &info);
    let alive = crate::world::within(std::time::Duration::from_secs(5), bed.dht.get_state()).await;
    if !matches!(alive, Some(Some(_))) {
        report.cross("C14", "node-dead-after-storm", "get_state() no longer completes after the storm", info.clone());
    }
    report
}

// ---------------------------------------------------------------------------------------------
// Queries that reuse the transaction id of one of the node's own pending requests.

struct EchoContact {
    id: Id,
    /// Answer the node's request before (true) or after (false) sending our own query.
    answer_first: bool,
    sent: Vec<(SocketAddr, Vec<u8>)>,
    kind: u8,
}

impl Actor for EchoContact {
    fn on_datagram(&mut self, net: &Net, at: SocketAddr, src: SocketAddr, data: &[u8]) {
        let Ok(msg) = Krpc::parse(data) else { return };
        if !msg.is_query() {
            return;
        }
        // Our own query to the node, carrying the very transaction id the node just used.
        let q = match self.kind {
            0 => Query::Ping,
            1 => Query::FindNode {
                target: self.id,
                want: None,
            },
            _ => Query::GetPeers {
                info_hash: self.id,
                want: None,
            },
        };
        let own = Krpc::query(&msg.t, self.id, q).encode();
        let reply = Krpc::reply(
            &msg.t,
            Reply {
                id: self.id,
                ..Default::default()
            },
        )
        .encode();
        if self.answer_first {
            net.send_from_after(at, src, reply, 3 * MS);
            net.send_from_after(at, src, own.clone(), 6 * MS);
        } else {
            net.send_from_after(at, src, own.clone(), 3 * MS);
            net.send_from_after(at, src, reply, 200 * MS);
        }
        self.sent.push((at, own));
    }
}

fn echo_scenario(ctx: &Ctx, idx: u64) -> Report {
    let ctx = *ctx;
    run_sim(move || async move {
        let mut report = Report::default();
        let seed = sseed(&ctx, "tid-echo", idx);
        let mut rng = ChaCha8Rng::seed_from_u64(seed);
        let info = replay_info("C05", "tid-echo", &ctx, idx);
        let net = Net::new(seed);
        let v6 = rng.gen_bool(0.3);
        let addr = crate::bed::node_addr(v6, 1);
        let contact_addr = crate::bed::world_addr(v6, 5);
        let read_only = rng.gen_bool(0.2);
        let answer_first = rng.gen_bool(0.4);
        let kind = rng.gen_range(0..3);
        let contact = net.add_actor(
            move |a| *a == contact_addr,
            EchoContact {
                id: gen::rand_id(&mut rng),
                answer_first,
                sent: Vec::new(),
                kind,
            },
        );
        let mut cfg = NodeCfg::new(addr);
        cfg.read_only = read_only;
        cfg.nodes = vec![contact_addr];
        let id = gen::rand_id(&mut rng);
        cfg.id = Some(id);
        let dht = spawn_node(&net, &cfg);
        sleep_us(rng.gen_range(3..20) * SEC).await;
        settle().await;
        report.evaluations += 1;

        let log = net.log();
        let queries = contact.lock().unwrap().sent.clone();
        // our queries carried the tids of the node's requests; count the answers per tid
        for (_, own) in &queries {
            let q = Krpc::parse(own).unwrap();
            let delivered = log
                .iter()
                .filter(|w| w.ev == Ev::Deliver && w.dst == addr && *w.data == *own)
                .count();
            let answers = log
                .iter()
                .filter(|w| w.ev == Ev::Send && w.src == addr && w.dst == contact_addr)
                .filter_map(|w| Krpc::parse(&w.data).ok())
                .filter(|k| !k.is_query() && k.t == q.t)
                .count();
            report.count("queries_reusing_a_pending_tid");
            report.distinct(format!(
                "echo/{}/{}/{}",
                q.method().unwrap(),
                if answer_first { "after-answer" } else { "while-pending" },
                if read_only { "ro" } else { "serving" }
            ));
            let want = if read_only { 0 } else { delivered };
            if answers != want {
                report.violation(
                    "C05",
                    if read_only { "answered:query-to-a-read-only-node" } else { "reply-count:pending-tid" },
                    format!(
                        "well-formed {} from a bootstrap contact, using the transaction id of the node's own pending request, delivered {delivered} time(s), got {answers} answer(s) (want {want})",
                        q.method().unwrap()
                    ),
                    info.clone().with("query_hex", hex(own)),
                );
            }
        }
        wiremon::always_on(&mut report, &net, &[addr], &info);
        let alive = crate::world::within(std::time::Duration::from_secs(5), dht.get_state()).await;
        if !matches!(alive, Some(Some(_))) {
            report.cross("C15", "node-dead", "get_state() does not complete", info.clone());
        }
        report
    })
}

pub fn storm_scenario_pub(ctx: &Ctx, idx: u64) -> Report {
    storm_scenario(ctx, idx)
}

pub fn check(tier: Tier) -> Check {
    Check {
        id: "C05",
        level: "exploration",
        rule: "A real node (serving or read-only, IPv4 or IPv6, routing table filled from a scripted world \
               of 0..120 nodes, peer store optionally filled past 500) receives 600 (quick) / 1500 \
               (thorough) datagrams per scenario, each from its own source address: well-formed queries of \
               all four kinds x want {absent,n4,n6,both} x explicit/implied port x token {issued to this IP, \
               random 20 B, wrong length, empty} x tid 0..32 B, with and without non-BEP5 keys; responses \
               (random tids and tids the node itself just used); errors; structure-aware garbage; random \
               latency and duplication. Oracle: exactly-once matching of the node's datagrams per source \
               address plus content predicates. Stream tid-echo: a bootstrap contact sends queries reusing \
               the transaction id of the node's own pending request. distinct_nontrivial = distinct \
               (method, source family, want / port mode / token class / tid length) classes and silent \
               classes observed.",
        assumptions: vec![
            "well-formed = BEP5 argument lists (announce_peer always carries port); hostile datagrams that the lenient reference parser sees as possible queries may get 0 or 1 answers",
            "tokens used as 'right' were issued by the node to the same IP less than 10 virtual minutes earlier",
        ],
        deciding: vec!["C05"],
        streams: vec![
            Stream::new("storm", tier.pick(1_600, 6400), storm_scenario),
            Stream::new("tid-echo", tier.pick(480, 1920), echo_scenario),
        ],
        require: vec![
            ("wellformed_queries", tier.pick(50_000, 500_000)),
            ("must_be_silent_datagrams", tier.pick(40_000, 300_000)),
            ("outcome_reply", tier.pick(25_000, 200_000)),
            ("outcome_ack", tier.pick(2_500, 20_000)),
            ("outcome_e203", tier.pick(2_500, 20_000)),
            ("outcome_e202", tier.pick(250, 1_000)),
            ("store_renewal_scenarios", tier.pick(25, 100)),
            ("duplicated_queries", tier.pick(1_500, 10_000)),
            ("queries_reusing_a_pending_tid", tier.pick(200, 400)),
        ],
        exhaustive: false,
    }
}
