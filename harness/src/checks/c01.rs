//! C01 — announced peers are found by every other node's search (end to end).
//!
//! 2..9 real serving nodes that all know each other, on the simulated network under virtual time.

use super::{replay_info, sseed, Check, Ctx, Stream};
use crate::bed::node_addr;
use crate::gen;
use crate::json::{hex, J};
use crate::refcodec::Id;
use crate::runner::{Report, Tier};
use crate::simnet::{run_sim, settle, sleep_us, Link, Micros, Net, HOUR, MIN, MS, SEC};
use crate::wiremon;
use crate::world::{run_search, spawn_node, NodeCfg};
use btdht::MainlineDht;
use rand::seq::SliceRandom;
use rand::{Rng, SeedableRng};
use rand_chacha::ChaCha8Rng;
use std::collections::{HashMap, HashSet};
use std::net::SocketAddr;
use std::time::Duration;

const DAY: Micros = 24 * HOUR;
const EPS: Micros = 5 * SEC;

struct NodeInfo {
    dht: MainlineDht,
    addr: SocketAddr,
    announce_port: Option<u16>,
}

impl NodeInfo {
    /// The address other nodes must find for this node.
    fn expected(&self) -> SocketAddr {
        let mut a = self.addr;
        if let Some(p) = self.announce_port {
            a.set_port(p);
        }
        a
    }
}

async fn all_know_each_other(nodes: &[NodeInfo]) -> bool {
    for (i, n) in nodes.iter().enumerate() {
        let Some(Ok((good, _))) = crate::world::within(Duration::from_secs(2), n.dht.load_contacts()).await else {
            return false;
        };
        let want: HashSet<SocketAddr> = nodes.iter().enumerate().filter(|(j, _)| *j != i).map(|(_, m)| m.addr).collect();
        if good != want {
            return false;
        }
    }
    true
}

fn scenario(ctx: &Ctx, idx: u64) -> Report {
    let ctx = *ctx;
    run_sim(move || async move {
        let mut report = Report::default();
        let seed = sseed(&ctx, "network", idx);
        let mut rng = ChaCha8Rng::seed_from_u64(seed);
        let info = replay_info("C01", "network", &ctx, idx);
        let net = Net::new(seed);
        let v6 = rng.gen_bool(0.35);
        // long horizons are expensive (every node re-bootstraps every ~5 s): keep those networks small
        let horizon_class = match rng.gen_range(0..100) {
            0..=59 => 0, // seconds to minutes
            60..=86 => 1, // token rotation / node ageing range
            87..=94 => 2, // around 24 h
            _ => 3,      // several days with re-announces
        };
        let n = match horizon_class {
            0 | 1 => rng.gen_range(2..=9usize),
            2 => rng.gen_range(2..=ctx.tier.pick(4usize, 6)),
            _ => rng.gen_range(2..=3usize),
        };
        let ih: Id = gen::rand_id(&mut rng);
        let clustered = rng.gen_bool(0.4);
        // per-datagram latency: round trips stay below the 1.5 s query timeout
        let max_lat = *[20 * MS, 150 * MS, 400 * MS, 700 * MS].choose(&mut rng).unwrap();
        net.set_link(Link::uniform(0, max_lat));
        net.set_log_enabled(false);
        net.set_send_yield(*[0.0, 0.0, 0.3, 1.0].choose(&mut rng).unwrap());

        // in IPv6 networks every fourth node lives at an IPv4-mapped address (dual-stack socket)
        // some nodes share a machine: same IP address as the previous node, another port
        let shared_ip = rng.gen_bool(0.35);
        let addrs: Vec<SocketAddr> = (0..n)
            .map(|i| {
                if shared_ip && i % 2 == 1 {
                    let mut a = node_addr(v6, 10 + i as u32 - 1);
                    a.set_port(6882 + i as u16);
                    a
                } else if v6 && i % 4 == 3 {
                    SocketAddr::new(std::net::Ipv4Addr::new(10, 0, 0, 10 + i as u8).to_ipv6_mapped().into(), 6881)
                } else {
                    node_addr(v6, 10 + i as u32)
                }
            })
            .collect();
        let mut nodes: Vec<NodeInfo> = Vec::new();
        for i in 0..n {
            let mut cfg = NodeCfg::new(addrs[i]);
            cfg.id = Some(if clustered {
                let p = rng.gen_range(0..159);
                gen::id_with_prefix(&mut rng, &ih, p)
            } else {
                gen::rand_id(&mut rng)
            });
            cfg.read_only = false;
            cfg.announce_port = if rng.gen_bool(0.5) { Some(rng.gen_range(1..65535)) } else { None };
            if shared_ip {
                report.count("nodes_sharing_an_ip_address_with_another_node");
            }
            cfg.nodes = addrs.iter().enumerate().filter(|(j, _)| *j != i).map(|(_, a)| *a).collect();
            nodes.push(NodeInfo {
                dht: spawn_node(&net, &cfg),
                addr: addrs[i],
                announce_port: cfg.announce_port,
            });
        }
        // API calls racing the deliveries on every node (short horizons only: the bursts are per
        // delivered datagram)
        if horizon_class == 0 && rng.gen_bool(0.4) {
            for nd in &nodes {
                crate::world::api_hammer(&net, &nd.dht, nd.addr, seed ^ nd.addr.port() as u64, 0.05, 20_000);
            }
            report.count("networks_with_api_callers_racing_deliveries");
        }
        report.evaluations += 1;
        for nd in &nodes {
            let ok = tokio::time::timeout(Duration::from_secs(600), nd.dht.bootstrapped()).await.unwrap_or(false);
            if !ok {
                report.count("precondition_miss_not_bootstrapped");
                return report;
            }
        }
        // let everybody get to know everybody
        let mut settled = false;
        for _ in 0..60 {
            sleep_us(5 * SEC).await;
            if all_know_each_other(&nodes).await {
                settled = true;
                break;
            }
        }
        if !settled {
            report.count("precondition_miss_not_all_known");
            return report;
        }

        // ---- schedule of announces and searches
        let n_announcers = rng.gen_range(1..=n.min(4));
        let announcers: Vec<usize> = (0..n).collect::<Vec<_>>().choose_multiple(&mut rng, n_announcers).copied().collect();
        let offsets: Vec<Micros> = match horizon_class {
            0 => vec![0, rng.gen_range(0..10 * SEC), rng.gen_range(0..3 * MIN)],
            1 => vec![rng.gen_range(9 * MIN..11 * MIN), rng.gen_range(19 * MIN..31 * MIN), rng.gen_range(31 * MIN..2 * HOUR)],
            2 => vec![
                DAY - rng.gen_range(MIN..2 * MIN),
                DAY - rng.gen_range(6 * SEC..30 * SEC),
                DAY + rng.gen_range(6 * SEC..30 * SEC),
                DAY + HOUR,
            ],
            _ => vec![20 * HOUR, 40 * HOUR, 60 * HOUR, 60 * HOUR + DAY + MIN],
        };
        let reannounce_every: Option<Micros> = if horizon_class == 3 { Some(20 * HOUR) } else { None };

        // last end of an announcing search per announcer
        let mut last_announce: HashMap<usize, Micros> = HashMap::new();
        let do_announce = |who: usize| {
            let (net2, dht2) = (net.clone(), nodes[who].dht.clone());
            async move { run_search(&net2, &dht2, ih, true, Duration::from_secs(300)).await }
        };
        // initial announces (possibly overlapping)
        let mut tasks = Vec::new();
        for &a in &announcers {
            tasks.push((a, tokio::spawn(do_announce(a))));
            if rng.gen_bool(0.5) {
                sleep_us(rng.gen_range(0..2 * SEC)).await;
            }
        }
        for (a, t) in tasks {
            if let Ok(r) = t.await {
                if let Some(end) = r.ended {
                    last_announce.insert(a, end);
                    report.count("announcing_searches");
                }
            }
        }
        let t_base = last_announce.values().copied().max().unwrap_or(net.now());
        let mut next_reannounce = reannounce_every.map(|e| t_base + e);

        for off in offsets {
            let target_time = t_base + off;
            // re-announces on the way
            while let (Some(at), Some(every)) = (next_reannounce, reannounce_every) {
                if at >= target_time {
                    break;
                }
                sleep_us(at.saturating_sub(net.now())).await;
                // not everybody re-announces every time: each announcer's 24 hours run from its own
                // last announce (the others expire on their own schedule)
                let all_again = rng.gen_bool(0.4);
                for &a in &announcers {
                    if !all_again && rng.gen_bool(0.5) {
                        report.count("re_announce_rounds_skipped_by_an_announcer");
                        continue;
                    }
                    if !all_know_each_other(&nodes).await {
                        report.count("precondition_miss_step_skipped");
                        continue;
                    }
                    let r = do_announce(a).await;
                    if let Some(end) = r.ended {
                        last_announce.insert(a, end);
                        report.count("re_announces");
                    }
                }
                next_reannounce = Some(at + every);
            }
            sleep_us(target_time.saturating_sub(net.now())).await;
            if !all_know_each_other(&nodes).await {
                // give the refresh a moment, then re-check; otherwise skip this step
                sleep_us(40 * SEC).await;
                if !all_know_each_other(&nodes).await {
                    report.count("precondition_miss_step_skipped");
                    continue;
                }
            }
            // 1..8 searchers (any node but judged only against other nodes' announces), overlapping
            let n_search = rng.gen_range(1..=8usize);
            let mut handles = Vec::new();
            for _ in 0..n_search {
                let who = rng.gen_range(0..n);
                let (net2, dht2) = (net.clone(), nodes[who].dht.clone());
                let delay = rng.gen_range(0..SEC);
                handles.push((
                    who,
                    tokio::spawn(async move {
                        sleep_us(delay).await;
                        run_search(&net2, &dht2, ih, false, Duration::from_secs(300)).await
                    }),
                ));
            }
            for (who, h) in handles {
                let Ok(r) = h.await else { continue };
                report.count("searches");
                if r.ended.is_none() {
                    report.cross("C04", "never-ends", "a search did not end within 300 s", info.clone());
                    continue;
                }
                let yielded: HashSet<SocketAddr> = r.items.iter().map(|(_, a)| *a).collect();
                for &a in &announcers {
                    if a == who {
                        continue;
                    }
                    let Some(&ann) = last_announce.get(&a) else { continue };
                    let age = r.started.saturating_sub(ann);
                    let expected = nodes[a].expected();
                    let found = yielded.contains(&expected);
                    // announce_peer is fire-and-forget: the announcing stream closes when the
                    // announces are *sent*; they reach the storing nodes up to one network latency
                    // later. A search that starts inside that window races the announce datagrams
                    // and gives no verdict (counted and reported).
                    if r.started >= ann && r.started < ann + max_lat + 100 * MS {
                        report.count("searches_racing_the_announce_datagrams_no_verdict");
                        if !found {
                            report.count("searches_racing_the_announce_datagrams_that_missed_the_announcer");
                        }
                    } else if r.started >= ann && age + EPS < DAY {
                        report.count("must_find_checks");
                        if age > 15 * MIN {
                            report.count("must_find_checks_after_15_min");
                        }
                        if age > 23 * HOUR {
                            report.count("must_find_checks_in_the_last_hour");
                        }
                        if !found {
                            report.violation(
                                "C01",
                                "announced-peer-not-found",
                                format!(
                                    "node {} searched {} s after node {}'s announce ended and did not find {} (found {:?}); {} nodes, latency < {} ms, {}",
                                    nodes[who].addr,
                                    age / SEC,
                                    nodes[a].addr,
                                    expected,
                                    yielded,
                                    n,
                                    max_lat / MS,
                                    if nodes[a].announce_port.is_some() { "announce port configured" } else { "implied port" }
                                ),
                                info.clone().with("age_s", age / SEC).with("info_hash", hex(&ih)),
                            );
                        }
                        // nothing but announcers' addresses may ever be yielded
                    } else if age > DAY + EPS {
                        report.count("must_not_find_checks");
                        if found {
                            report.violation(
                                "C01",
                                "expired-peer-still-found",
                                format!(
                                    "node {} searched {} s (> 24 h) after node {}'s last announce and still found {}",
                                    nodes[who].addr,
                                    age / SEC,
                                    nodes[a].addr,
                                    expected
                                ),
                                info.clone().with("age_s", age / SEC),
                            );
                        }
                    } else {
                        report.count("searches_in_the_24h_boundary_band_no_verdict");
                    }
                }
                let legit: HashSet<SocketAddr> = nodes.iter().map(|n| n.expected()).collect();
                if let Some(bogus) = yielded.iter().find(|a| !legit.contains(*a)) {
                    report.violation(
                        "C01",
                        "unknown-peer-yielded",
                        format!("search yielded {bogus}, which is not the announce address of any node"),
                        info.clone(),
                    );
                }
            }
        }
        report.distinct(format!(
            "n{n}/v6{v6}/lat{}/clustered{clustered}/announcers{n_announcers}/horizon{horizon_class}",
            max_lat / MS
        ));
        report.add("virtual_hours_simulated", net.now() / HOUR);
        let (sends, _, _) = net.counters();
        report.add("datagrams_sent", sends);
        if idx < 3 {
            report.sample(
                J::obj()
                    .with("nodes", n)
                    .with("ipv6", v6)
                    .with("max_one_way_latency_ms", max_lat / MS)
                    .with("announcers", n_announcers)
                    .with("horizon_class", horizon_class as u64)
                    .with("virtual_hours", net.now() / HOUR)
                    .with("datagrams", sends),
            );
        }
        let _ = (settle, wiremon::MAX_DATAGRAM);
        report
    })
}

// ---------------------------------------------------------------------------------------------
// Real threads: the same end-to-end oracle on a multi-threaded runtime over loopback UDP and the
// wall clock. Samples true parallel interleavings of the handler task, the bootstrap task and API
// callers (seconds-long histories only). A wall-clock timeout is never a verdict.

fn threads_scenario(ctx: &Ctx, idx: u64) -> Report {
    use std::sync::{Arc, Mutex};
    let mut report = Report::default();
    let seed = sseed(ctx, "threads", idx);
    let mut rng = ChaCha8Rng::seed_from_u64(seed);
    let info = replay_info("C01", "threads", ctx, idx);
    let worker_ids: Arc<Mutex<Vec<std::thread::ThreadId>>> = Arc::new(Mutex::new(Vec::new()));
    let ids2 = worker_ids.clone();
    let rt = tokio::runtime::Builder::new_multi_thread()
        .worker_threads(rng.gen_range(2..=4))
        .enable_all()
        .on_thread_start(move || ids2.lock().unwrap().push(std::thread::current().id()))
        .build()
        .expect("runtime");
    let n = rng.gen_range(2..=5usize);
    let v6 = rng.gen_bool(0.3);
    let ih = gen::rand_id(&mut rng);
    let ports: Vec<Option<u16>> = (0..n).map(|_| if rng.gen_bool(0.5) { Some(rng.gen_range(1024..65535)) } else { None }).collect();
    let announcer = rng.gen_range(0..n);
    let api_hammer = rng.gen_bool(0.5);
    report.evaluations += 1;

    let outcome = rt.block_on(async move {
        use tokio::net::UdpSocket;
        let wall = |s: u64| Duration::from_secs(s);
        let bind_addr: SocketAddr = if v6 { "[::1]:0".parse().unwrap() } else { "127.0.0.1:0".parse().unwrap() };
        let mut sockets = Vec::new();
        for _ in 0..n {
            match UdpSocket::bind(bind_addr).await {
                Ok(s) => sockets.push(s),
                Err(e) => return Err(format!("cannot bind {bind_addr}: {e}")),
            }
        }
        let addrs: Vec<SocketAddr> = sockets.iter().map(|s| s.local_addr().unwrap()).collect();
        let mut nodes = Vec::new();
        for (i, sock) in sockets.into_iter().enumerate() {
            let mut b = MainlineDht::builder().set_read_only(false);
            for (j, a) in addrs.iter().enumerate() {
                if j != i {
                    b = b.add_node(*a);
                }
            }
            if let Some(p) = ports[i] {
                b = b.set_announce_port(p);
            }
            nodes.push(b.start(sock).map_err(|e| format!("start: {e}"))?);
        }
        for nd in &nodes {
            match tokio::time::timeout(wall(30), nd.bootstrapped()).await {
                Ok(true) => {}
                Ok(false) => return Ok(Some("bootstrapped() returned false on a live node".to_owned())),
                Err(_) => return Err("bootstrap did not finish within 30 s of wall time".into()),
            }
        }
        // everybody must know everybody before the premise of the property holds
        let deadline = std::time::Instant::now() + wall(20);
        loop {
            let mut ok = true;
            for (i, nd) in nodes.iter().enumerate() {
                match tokio::time::timeout(wall(5), nd.load_contacts()).await {
                    Ok(Ok((good, _))) => ok &= (0..n).filter(|j| *j != i).all(|j| good.contains(&addrs[j])),
                    Ok(Err(_)) => return Ok(Some("load_contacts() failed on a live node".to_owned())),
                    Err(_) => return Err("load_contacts() slow".into()),
                }
            }
            if ok {
                break;
            }
            if std::time::Instant::now() > deadline {
                return Err("nodes did not all get to know each other within 20 s".into());
            }
            tokio::time::sleep(Duration::from_millis(200)).await;
        }
        // API callers hammering the nodes from other threads while the searches run
        let stop = Arc::new(std::sync::atomic::AtomicBool::new(false));
        let mut hammers = Vec::new();
        if api_hammer {
            for nd in nodes.iter().cloned() {
                let stop = stop.clone();
                hammers.push(tokio::spawn(async move {
                    let mut calls = 0u64;
                    while !stop.load(std::sync::atomic::Ordering::Relaxed) {
                        let _ = nd.get_state().await;
                        let _ = nd.load_contacts().await;
                        calls += 2;
                        tokio::task::yield_now().await;
                    }
                    calls
                }));
            }
        }
        let search = |nd: MainlineDht, announce: bool| async move {
            use futures_util::StreamExt;
            let mut stream = nd.search(btdht::InfoHash::from(ih), announce);
            let mut items = Vec::new();
            let end = tokio::time::timeout(wall(30), async {
                while let Some(a) = stream.next().await {
                    items.push(a);
                }
            })
            .await;
            (items, end.is_ok())
        };
        let (_, ended) = search(nodes[announcer].clone(), true).await;
        if !ended {
            stop.store(true, std::sync::atomic::Ordering::Relaxed);
            return Err("announcing search did not end within 30 s".into());
        }
        // all other nodes search concurrently
        let mut tasks = Vec::new();
        for (i, nd) in nodes.iter().enumerate() {
            if i != announcer {
                tasks.push((i, tokio::spawn(search(nd.clone(), false))));
            }
        }
        let mut expected = addrs[announcer];
        if let Some(p) = ports[announcer] {
            expected.set_port(p);
        }
        let mut verdict = None;
        let mut checked = 0u64;
        for (i, t) in tasks {
            match t.await {
                Ok((items, true)) => {
                    checked += 1;
                    if !items.contains(&expected) {
                        verdict = Some(format!(
                            "node {} searched right after node {}'s announce ended and did not find {expected} (found {items:?}); {n} nodes on loopback UDP, multi-threaded runtime",
                            addrs[i], addrs[announcer]
                        ));
                    }
                }
                Ok((_, false)) => {
                    stop.store(true, std::sync::atomic::Ordering::Relaxed);
                    return Err("a search did not end within 30 s".into());
                }
                Err(_) => return Ok(Some("a search task panicked".to_owned())),
            }
        }
        stop.store(true, std::sync::atomic::Ordering::Relaxed);
        let mut calls = 0;
        for h in hammers {
            calls += h.await.unwrap_or(0);
        }
        Ok(verdict.or_else(|| {
            // encode the counters in an otherwise empty verdict
            Some(format!("OK {checked} {calls}"))
        }))
    });
    // panics while the network was in use: the panic monitor's business
    let threads = worker_ids.lock().unwrap().clone();
    for (loc, msg) in crate::runner::take_panics_of_threads(&threads) {
        if crate::runner::is_harness_location(&loc) {
            report.inconclusive.push(format!("harness panic at {loc}: {msg}"));
        } else {
            report.panics.push((loc, msg));
        }
    }
    // Tearing the runtime down cancels the tasks of the nodes in arbitrary order; a handler task
    // still being polled while its bootstrap worker is cancelled trips `assert!(result.is_ok())`
    // on the closed state channel (seen about once per 100 networks). That is a shutdown artefact
    // of dropping a runtime with live nodes, outside every property here (the node is no longer
    // running); it is counted, not judged.
    drop(rt);
    let threads = worker_ids.lock().unwrap().clone();
    let teardown = crate::runner::take_panics_of_threads(&threads);
    report.add("threads_panics_during_runtime_teardown_not_judged", teardown.len() as u64);
    match outcome {
        Ok(Some(s)) if s.starts_with("OK ") => {
            let mut it = s.split_whitespace().skip(1);
            report.add("threads_must_find_checks", it.next().and_then(|x| x.parse().ok()).unwrap_or(0));
            report.add("threads_concurrent_api_calls", it.next().and_then(|x| x.parse().ok()).unwrap_or(0));
            report.count("threads_networks_completed");
            report.distinct(format!("threads/n{n}/v6{v6}/hammer{api_hammer}"));
        }
        Ok(Some(what)) => report.violation("C01", "announced-peer-not-found-threads", what, info),
        Ok(None) => {}
        // wall-clock trouble on a loaded machine is not a verdict
        Err(why) => {
            report.count("threads_networks_given_up_wall_clock");
            report.distinct(format!("threads/gave-up/{}", why.split(' ').next().unwrap_or("")));
        }
    }
    report
}

pub fn check(tier: Tier) -> Check {
    Check {
        id: "C01",
        level: "exploration",
        rule: "2..9 real serving nodes (2..4/6 for 24 h runs, 2..3 for multi-day runs; IPv4 or IPv6, random ids or ids clustered around the info-hash, announce \
               port set or not per node), each started with all others as contacts, one-way latency uniform in \
               [0, L) with L in {20,150,400,700} ms, loss-free. 1..4 nodes run an announcing search (possibly \
               overlapping); then at offsets of seconds..minutes (60 %), 9-11 / 19-31 min / up to 2 h (27 %), 24 h \
               minus minutes/seconds and plus seconds/1 h (10 %), or 20/40/60 h with re-announce every 20 h and \
               finally 24 h after the last one (3 %), 1..8 overlapping searches run from random nodes. Before \
               every step the premise is checked (every node's good contacts == all other nodes), else the step \
               is skipped. Oracle: a search starting less than 24 h - 5 s after the end of another node's last \
               announcing search must yield that node's IP with its announce port (or UDP port); one starting \
               more than 24 h + 5 s after must not; nothing but announce addresses is ever yielded. Stream \
               threads: 2..5 real nodes over loopback UDP on a multi-threaded runtime under the wall clock \
               (seconds-long histories; optional API callers hammering get_state / load_contacts from other \
               threads): after the announce every other node's concurrent search must find the announcer; \
               wall-clock timeouts are counted, never judged. \
               distinct_nontrivial = distinct (nodes, family, latency, id placement, announcers, horizon).",
        assumptions: vec![
            "round trips stay below the node's 1.5 s query timeout (one-way latency < 0.7 s): C04 states that later answers may be missed, so 'loss-free' is read as 'answers arrive in time'",
            "schedules are sampled; virtual time makes 24 h histories run in seconds",
            "'once the announcing search has ended' is read as 'once its announce_peer datagrams have been delivered': the stream closes when they are sent, so searches starting within one network latency of that instant race them and give no verdict (their number, and how many of them missed the announcer, is reported)",
        ],
        deciding: vec!["C01"],
        streams: vec![
            Stream::new("network", tier.pick(160, 2400), scenario).budget(tier.pick(900.0, 3000.0), tier.pick(160, 1200)),
            Stream::new("threads", tier.pick(48, 1600), threads_scenario).budget(tier.pick(300.0, 1500.0), tier.pick(12, 200)),
        ],
        require: vec![
            ("must_find_checks", tier.pick(500, 8_000)),
            ("must_find_checks_after_15_min", tier.pick(100, 2_000)),
            ("must_find_checks_in_the_last_hour", tier.pick(5, 100)),
            ("must_not_find_checks", tier.pick(5, 100)),
            ("announcing_searches", tier.pick(200, 3_000)),
            ("threads_networks_completed", tier.pick(12, 200)),
        ],
        exhaustive: false,
    }
}
