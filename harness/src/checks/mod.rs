//! One module per property. Each check is a set of scenario streams plus verdict metadata.

use crate::json::J;
use crate::runner::{self, Report, RunCfg, Tier};
use crate::verdict::{self, Meta};
use std::sync::Arc;
use std::time::Instant;

pub mod c01;
pub mod c02;
pub mod c03;
pub mod c04;
pub mod c05;
pub mod c06;
pub mod c0607;
pub mod c07;
pub mod c08;
pub mod c09;
pub mod c09wire;
pub mod c10;
pub mod c11;
pub mod c12;
pub mod c13;
pub mod c14;
pub mod c15;
pub mod c16;
pub mod c17;
pub mod c18;
pub mod c19;
pub mod c20;

pub fn c13_ops(ctx: &Ctx, idx: u64, n: usize) -> Report {
    c13::scenario_n(ctx, idx, n)
}

#[derive(Clone, Copy)]
pub struct Ctx {
    pub seed: u64,
    pub tier: Tier,
}

pub type ScenarioFn = Arc<dyn Fn(&Ctx, u64) -> Report + Send + Sync>;

pub struct Stream {
    pub name: &'static str,
    pub count: u64,
    /// Scenarios that must have run for the result not to be inconclusive.
    pub min_count: u64,
    pub budget_s: f64,
    pub run: ScenarioFn,
    /// Run every scenario in a supervised child process (wall limit per child, seconds).
    pub supervised: Option<f64>,
}

impl Stream {
    pub fn new(
        name: &'static str,
        count: u64,
        run: impl Fn(&Ctx, u64) -> Report + Send + Sync + 'static,
    ) -> Stream {
        Stream {
            name,
            count,
            min_count: count,
            budget_s: 900.0,
            run: Arc::new(run),
            supervised: None,
        }
    }
    pub fn supervised(mut self, child_wall_limit_s: f64) -> Stream {
        self.supervised = Some(child_wall_limit_s);
        self
    }
    pub fn budget(mut self, s: f64, min_count: u64) -> Stream {
        self.budget_s = s;
        self.min_count = min_count;
        self
    }
}

pub struct Check {
    pub id: &'static str,
    pub level: &'static str,
    pub rule: &'static str,
    pub assumptions: Vec<&'static str>,
    /// Properties whose violations decide this check.
    pub deciding: Vec<&'static str>,
    pub streams: Vec<Stream>,
    pub require: Vec<(&'static str, u64)>,
    pub exhaustive: bool,
}

pub fn get(id: &str, tier: Tier) -> Option<Check> {
    Some(match id {
        "C01" => c01::check(tier),
        "C02" => c02::check(tier),
        "C03" => c03::check(tier),
        "C04" => c04::check(tier),
        "C05" => c05::check(tier),
        "C06" => c06::check(tier),
        "C07" => c07::check(tier),
        "C08" => c08::check(tier),
        "C09" => c09::check(tier),
        "C10" => c10::check(tier),
        "C11" => c11::check(tier),
        "C12" => c12::check(tier),
        "C13" => c13::check(tier),
        "C14" => c14::check(tier),
        "C15" => c15::check(tier),
        "C16" => c16::check(tier),
        "C17" => c17::check(tier),
        "C18" => c18::check(tier),
        "C19" => c19::check(tier),
        "C20" => c20::check(tier),
        _ => return None,
    })
}

pub const ALL: &[&str] = &["C01", "C02", "C03", "C04", "C05", "C06", "C07", "C08", "C09", "C10", "C11", "C12", "C13", "C14", "C15", "C16", "C17", "C18", "C19", "C20"];

/// Stream-local seed for scenario `idx`.
pub fn sseed(ctx: &Ctx, stream: &str, idx: u64) -> u64 {
    let mut h = 0xcbf2_9ce4_8422_2325u64;
    for b in stream.bytes() {
        h = (h ^ b as u64).wrapping_mul(0x1000_0000_01b3);
    }
    runner::scenario_seed(ctx.seed, h, idx)
}

pub fn replay_info(check: &str, stream: &str, ctx: &Ctx, idx: u64) -> J {
    J::obj()
        .with("check", check)
        .with("stream", stream)
        .with("idx", idx)
        .with("seed", ctx.seed)
        .with("tier", ctx.tier.name())
}

pub fn run_check(id: &str, tier: Tier, seed: u64, only_stream: Option<&str>, evidence: Option<std::path::PathBuf>) -> i32 {
    let Some(check) = get(id, tier) else {
        eprintln!("unknown check {id}");
        return verdict::EXIT_INCONCLUSIVE;
    };
    let started = Instant::now();
    let ctx = Ctx { seed, tier };
    let mut report = Report::default();
    for stream in check.streams {
        if let Some(only) = only_stream {
            if only != stream.name {
                continue;
            }
        }
        let run = stream.run.clone();
        let name = stream.name;
        let cfg = RunCfg::new(stream.count).budget(stream.budget_s, stream.min_count);
        let t = Instant::now();
        let supervised = stream.supervised;
        let check_id = check.id;
        let mut r = runner::run_parallel(cfg, move |idx| match supervised {
            None => run(&ctx, idx),
            Some(limit) => crate::supervise::run_child(
                check_id,
                check_id,
                name,
                &ctx,
                idx,
                std::time::Duration::from_secs_f64(limit),
                None,
            ),
        });
        // Prefix per-stream bookkeeping counters.
        let ran = r.counters.remove("scenarios_run").unwrap_or(0);
        r.add(&format!("stream_{name}_scenarios"), ran);
        eprintln!(
            "[{id}] stream {name}: {ran} scenarios in {:.1}s",
            t.elapsed().as_secs_f64()
        );
        report.merge(r);
    }
    let meta = Meta {
        prop: id,
        tier,
        seed,
        level: check.level,
        rule: check.rule,
        assumptions: &check.assumptions,
        require: check
            .require
            .iter()
            .map(|(k, v)| ((*k).to_owned(), *v))
            .collect(),
        wall_s: started.elapsed().as_secs_f64(),
        deciding: check.deciding.iter().map(|s| (*s).to_owned()).collect(),
        evidence_path: evidence,
        exhaustive: check.exhaustive,
    };
    verdict::conclude(meta, report)
}

/// Child side of a supervised stream: run one scenario in this process and write its report.
pub fn worker(id: &str, tier: Tier, seed: u64, stream_name: &str, idx: u64, out: &str) -> i32 {
    let Some(check) = get(id, tier) else {
        return 3;
    };
    let ctx = Ctx { seed, tier };
    for stream in check.streams {
        if stream.name == stream_name {
            let result = std::panic::catch_unwind(std::panic::AssertUnwindSafe(|| (stream.run)(&ctx, idx)));
            let panics = runner::take_panics();
            let mut report = match result {
                Ok(r) => r,
                Err(_) => Report::default(),
            };
            for (loc, msg) in panics {
                if runner::is_harness_location(&loc) {
                    report.inconclusive.push(format!("harness panic at {loc}: {msg}"));
                } else {
                    report.panics.push((loc, msg));
                }
            }
            crate::supervise::write_report(out, &report);
            return 0;
        }
    }
    3
}

/// Re-run one scenario of one stream and print what it reports.
pub fn replay(id: &str, tier: Tier, seed: u64, stream_name: &str, idx: u64) -> i32 {
    let Some(check) = get(id, tier) else {
        eprintln!("unknown check {id}");
        return verdict::EXIT_INCONCLUSIVE;
    };
    let ctx = Ctx { seed, tier };
    runner::set_panic_quiet(false);
    for stream in check.streams {
        if stream.name != stream_name {
            continue;
        }
        let mut reproduced = 0;
        let tries = 5;
        for _ in 0..tries {
            let r = (stream.run)(&ctx, idx);
            let hits: Vec<_> = r
                .violations
                .iter()
                .filter(|v| check.deciding.iter().any(|p| *p == v.prop))
                .collect();
            if !hits.is_empty() {
                reproduced += 1;
                if reproduced == 1 {
                    for v in hits {
                        println!("reproduced: [{}] {}", v.sig, v.what);
                        println!("{}", v.replay.to_string());
                    }
                }
            }
        }
        println!("replay {id}/{stream_name}/{idx}: violation reproduced in {reproduced} of {tries} runs");
        return if reproduced > 0 {
            verdict::EXIT_VIOLATION
        } else {
            verdict::EXIT_OK
        };
    }
    eprintln!("unknown stream {stream_name}");
    verdict::EXIT_INCONCLUSIVE
}
