//! C19 — transaction ids: 8 bytes, never reused while live or shared between activities.
//!
//! Stream generator: the real id generators (re-exported under the verif feature) are run through
//! a whole 2^24 message-id cycle and past it, and across the 2^40 action-id wrap (constructors
//! behind the verif feature place them near the wrap point).
//! Streams wire-*: the always-on wire monitor (wiremon::check_tids) is the deciding oracle over a
//! mixed bag of the other properties' scenarios.

use super::{c03, c04, c15, c16, replay_info, sseed, Check, Ctx, Stream};
use crate::json::{hex, J};
use crate::runner::{Report, Tier};
use btdht::verif::{AIDGenerator, MIDGenerator};
use rand::seq::SliceRandom;
use rand::{Rng, SeedableRng};
use rand_chacha::ChaCha8Rng;

const MID_SPACE: u64 = 1 << 24;
const AID_SPACE: u64 = 1 << 40;
const BLOCK: u64 = 2048;

fn tid_parts(bytes: &[u8]) -> Option<(u64, u64)> {
    if bytes.len() != 8 {
        return None;
    }
    let prefix = bytes[..5].iter().fold(0u64, |a, b| a << 8 | *b as u64);
    let mid = bytes[5..].iter().fold(0u64, |a, b| a << 8 | *b as u64);
    Some((prefix, mid))
}

fn generator_scenario(ctx: &Ctx, idx: u64) -> Report {
    let mut report = Report::default();
    let mut rng = ChaCha8Rng::seed_from_u64(sseed(ctx, "generator", idx));
    let info = replay_info("C19", "generator", ctx, idx);
    report.evaluations += 1;
    match idx % 5 {
        // Blocks anywhere in the 40-bit range: ids handed out from a generator placed at position P
        // must fit 5 bytes, be pairwise distinct, and never equal an id of the first blocks (the ones
        // the node's long-lived refresh and bootstrap activities hold).
        4 => {
            let mut first = std::collections::HashSet::new();
            let mut g0 = AIDGenerator::new();
            for _ in 0..3 * BLOCK {
                first.insert(g0.generate().action_id().verif_raw());
            }
            let mut positions: Vec<u64> = vec![1 << 16, 1 << 24, 1 << 31, (1 << 32) - BLOCK, 1 << 32, (1 << 32) + BLOCK, 1 << 33, 1 << 36, 1 << 39, AID_SPACE - 4 * BLOCK];
            for _ in 0..ctx.tier.pick(40, 400) {
                positions.push(rng.gen_range(3..AID_SPACE / BLOCK - 3) * BLOCK);
            }
            for pos in positions {
                let mut g = AIDGenerator::verif_with_next_alloc(pos);
                let mut seen = std::collections::HashSet::new();
                for i in 0..2 * BLOCK {
                    let a = g.generate().action_id().verif_raw();
                    let bad = if a >= AID_SPACE {
                        Some("action-id-out-of-range")
                    } else if first.contains(&a) || !seen.insert(a) {
                        Some("action-id-repeats")
                    } else {
                        None
                    };
                    if let Some(sig) = bad {
                        report.violation(
                            "C19",
                            sig,
                            format!("generator placed at activity #{pos:#x}: id #{i} is {a:#x}, which is out of range / was already handed out (to one of the first activities or in this run)"),
                            info.clone().with("position", format!("{pos:#x}")),
                        );
                        return report;
                    }
                }
                report.add("action_ids_checked_for_repeats", 2 * BLOCK);
                report.count("generator_positions_across_the_40_bit_range");
            }
            report.distinct_extra += 1;
        }
        // one activity: a whole cycle of 2^24 message ids is repeat-free; then a few blocks more
        0 => {
            let action: u64 = rng.gen_range(0..AID_SPACE);
            let mut g = MIDGenerator::verif_with_next_alloc(action, 0);
            if g.action_id().verif_raw() != action {
                report.violation("C19", "action-id-mismatch", "generator reports another action id than it was given", info.clone());
            }
            let mut seen = vec![0u64; (MID_SPACE / 64) as usize];
            let extra = 5 * BLOCK;
            for i in 0..MID_SPACE + extra {
                let tid = g.generate();
                let Some((prefix, mid)) = tid_parts(tid.as_ref()) else {
                    report.violation("C19", "tid-length", format!("generated transaction id has {} bytes", tid.as_ref().len()), info.clone());
                    return report;
                };
                if prefix != action {
                    report.violation(
                        "C19",
                        "prefix-drift",
                        format!("id #{i} of an activity carries prefix {prefix:#x}, the activity's is {action:#x}"),
                        info.clone(),
                    );
                    return report;
                }
                if i < MID_SPACE {
                    let (w, b) = ((mid / 64) as usize, mid % 64);
                    if seen[w] >> b & 1 == 1 {
                        report.violation(
                            "C19",
                            "message-id-repeats-within-2^24",
                            format!("message id {mid:#x} issued twice within the first 2^24 ids of one activity (second time as id #{i})"),
                            info.clone().with("tid", hex(tid.as_ref())),
                        );
                        return report;
                    }
                    seen[w] |= 1 << b;
                }
            }
            report.add("message_ids_checked_for_repeats", MID_SPACE);
            report.count("full_message_id_cycles");
            report.distinct_extra += 1;
            report.sample(J::obj().with("activity", format!("{action:#x}")).with("ids_generated", MID_SPACE + extra));
        }
        // message-id wrap reached through the hook constructor: the block after the wrap restarts at 0
        1 => {
            for k in 1..=3u64 {
                let action: u64 = rng.gen_range(0..AID_SPACE);
                let mut g = MIDGenerator::verif_with_next_alloc(action, MID_SPACE - k * BLOCK);
                let mut seen = std::collections::HashSet::new();
                for i in 0..(k + 2) * BLOCK {
                    let tid = g.generate();
                    let Some((prefix, mid)) = tid_parts(tid.as_ref()) else {
                        report.violation("C19", "tid-length", "generated transaction id is not 8 bytes", info.clone());
                        return report;
                    };
                    if prefix != action || mid >= MID_SPACE {
                        report.violation("C19", "prefix-drift", format!("id #{i} near the wrap: prefix {prefix:#x} / message id {mid:#x} for activity {action:#x}"), info.clone());
                        return report;
                    }
                    if !seen.insert(mid) {
                        report.violation("C19", "message-id-repeats-within-2^24", format!("message id {mid:#x} repeated across the 2^24 wrap within {} ids", i + 1), info.clone());
                        return report;
                    }
                }
                report.add("message_ids_checked_for_repeats", (k + 2) * BLOCK);
                report.count("message_id_wraps_crossed");
            }
            report.distinct_extra += 1;
        }
        // consecutive activities get pairwise distinct prefixes
        2 => {
            let n = ctx.tier.pick(1u64 << 20, 1 << 22);
            let mut g = AIDGenerator::new();
            let mut seen = std::collections::HashSet::with_capacity(n as usize);
            for i in 0..n {
                let a = g.generate().action_id().verif_raw();
                if a >= AID_SPACE {
                    report.violation("C19", "action-id-out-of-range", format!("action id {a:#x} does not fit 5 bytes"), info.clone());
                    return report;
                }
                if !seen.insert(a) {
                    report.violation("C19", "action-id-repeats", format!("action id {a:#x} handed out twice within {} activities", i + 1), info.clone());
                    return report;
                }
            }
            report.add("action_ids_checked_for_repeats", n);
            report.distinct_extra += 1;
        }
        // the 2^40 action-id wrap
        _ => {
            for k in 1..=3u64 {
                let mut g = AIDGenerator::verif_with_next_alloc(AID_SPACE - k * BLOCK);
                let mut seen = std::collections::HashSet::new();
                for i in 0..(k + 3) * BLOCK {
                    let mut m = g.generate();
                    let a = m.action_id().verif_raw();
                    let tid = m.generate();
                    let parts = tid_parts(tid.as_ref());
                    if a >= AID_SPACE || parts.map(|p| p.0) != Some(a) {
                        report.violation(
                            "C19",
                            "action-id-out-of-range",
                            format!("activity #{i} near the 2^40 wrap: action id {a:#x}, transaction id {}", hex(tid.as_ref())),
                            info.clone(),
                        );
                        return report;
                    }
                    if !seen.insert(a) {
                        report.violation("C19", "action-id-repeats", format!("action id {a:#x} repeated across the 2^40 wrap within {} activities", i + 1), info.clone());
                        return report;
                    }
                }
                report.add("action_ids_checked_for_repeats", (k + 3) * BLOCK);
                report.count("action_id_wraps_crossed");
            }
            report.distinct_extra += 1;
        }
    }
    report
}

/// One node runs more searches than an action-id block holds (2048), so that its id generator
/// crosses at least one block boundary while the bootstrap and refresh activities (which got their
/// ids first) are alive: every search must get a prefix no live activity uses. Decided by the wire
/// monitor plus the hook log of activity ids.
fn many_searches_scenario(ctx: &Ctx, idx: u64) -> Report {
    use crate::bed::{node_addr, world_addr, world_ids};
    use crate::simnet::{run_sim, sleep_us, Link, Net, MS};
    use crate::world::{spawn_node, NodeCfg, WNode, World};
    use futures_util::StreamExt;
    let ctx = *ctx;
    run_sim(move || async move {
        let mut report = Report::default();
        let seed = sseed(&ctx, "wire-many-searches", idx);
        let mut rng = ChaCha8Rng::seed_from_u64(seed);
        let info = replay_info("C19", "wire-many-searches", &ctx, idx);
        let net = Net::new(seed);
        let v6 = rng.gen_bool(0.3);
        let addr = node_addr(v6, 1);
        let id = crate::gen::rand_id(&mut rng);
        // tiny world: the node keeps re-bootstrapping (bootstrap activity busy), searches are short
        let world_size = rng.gen_range(1..=3usize);
        let nodes: Vec<WNode> = world_ids(&mut rng, world_size, &id, 0.0)
            .into_iter()
            .enumerate()
            .map(|(i, wid)| WNode::new(wid, world_addr(v6, i as u32)))
            .collect();
        let contacts: Vec<_> = nodes.iter().map(|n| n.addr).collect();
        let owned: std::collections::HashSet<_> = contacts.iter().copied().collect();
        let mut world = World::new(nodes);
        world.keep_served = false;
        net.add_actor(move |a| owned.contains(a), world);
        net.set_link(Link::uniform(MS, 20 * MS));
        let mut cfg = NodeCfg::new(addr);
        cfg.id = Some(id);
        cfg.nodes = contacts;
        let dht = spawn_node(&net, &cfg);
        report.evaluations += 1;
        let _ = tokio::time::timeout(std::time::Duration::from_secs(60), dht.bootstrapped()).await;
        let total = BLOCK as usize + rng.gen_range(16..300);
        let batch = *[1usize, 16, 64, 256, 2400].choose(&mut rng).unwrap();
        let mut started = 0;
        while started < total {
            let k = batch.min(total - started);
            let mut running = Vec::new();
            for _ in 0..k {
                let mut stream = dht.search(btdht::InfoHash::from(crate::gen::rand_id(&mut rng)), false);
                running.push(tokio::spawn(async move { while stream.next().await.is_some() {} }));
            }
            started += k;
            for r in running {
                if tokio::time::timeout(std::time::Duration::from_secs(120), r).await.is_err() {
                    report.cross("C04", "never-ends", "a search of the many-searches run did not end within 120 s", info.clone());
                }
            }
            sleep_us(rng.gen_range(0..50 * MS)).await;
        }
        report.add("searches_started_on_one_node", started as u64);
        report.count("nodes_taken_past_an_action_id_block_boundary");
        report.distinct(format!("many-searches/batch{batch}/world{world_size}/v6{v6}"));
        if idx == 0 {
            report.sample(J::obj().with("searches_on_one_node", started).with("concurrent", batch).with("world", world_size));
        }
        crate::wiremon::always_on(&mut report, &net, &[addr], &info);
        report
    })
}

pub fn check(tier: Tier) -> Check {
    Check {
        id: "C19",
        level: "exploration",
        rule: "Stream generator: (a) a production-size message-id generator is run through all 2^24 ids of one \
               activity plus 5 blocks, with a 2^24-bit bitmap: no repeat, constant 5-byte prefix, 8 bytes; (b) \
               generators placed 1..3 blocks before the 2^24 wrap (verif-only constructor) are run across it; \
               (c) 2^20 (quick) / 2^22 (thorough) consecutive activities get pairwise distinct prefixes < 2^40; \
               (d) the action-id generator placed 1..3 blocks before 2^40 is run across the wrap; (e) generators \
               placed at 2^16, 2^24, 2^31, 2^32 -/+ a block, 2^33, 2^36, 2^39 and 40..400 random block positions hand out \
               two blocks each: in range, pairwise distinct and disjoint from the first three blocks. Streams \
               wire-*: scenarios of C03 (1..6 concurrent searches under forgery), C04 (faults), C15 (bootstrap \
               configurations and outages) and C16 (early searches) are re-run with the wire monitor deciding: \
               every emitted query has an 8-byte id; an id is used twice only by the identical find_node of the \
               first bootstrap round towards pairwise distinct addresses; each query's 5-byte prefix belongs to \
               the live activity of its kind (hook log of activity ids and search start/finish); live \
               activities never share a prefix. Stream wire-many-searches: one node (world of 1..3 contacts, so it \
               keeps re-bootstrapping) runs 2064..2350 searches, 1 / 16 / 64 / 256 / all at a time, taking its \
               action-id generator past a 2048-id block boundary while bootstrap and refresh are alive; same \
               monitor. distinct_nontrivial = generator cases + distinct scenario \
               classes of the re-run streams.",
        assumptions: vec![
            "uniqueness of action ids over the whole 2^40 period is not runtime-reachable; both ends of the range are covered",
            "activity attribution uses the guarded hook events NodeCreated / LookupStarted / LookupFinished",
        ],
        deciding: vec!["C19"],
        streams: vec![
            Stream::new("generator", tier.pick(20, 80), generator_scenario),
            Stream::new("wire-searches", tier.pick(100, 2000), c03::scenario_pub),
            Stream::new("wire-faults", tier.pick(100, 2000), c04::faults_scenario_pub),
            Stream::new("wire-bootstrap", tier.pick(200, 4000), c15::scenario_pub),
            Stream::new("wire-early", tier.pick(100, 2000), c16::scenario_pub),
            Stream::new("wire-many-searches", tier.pick(16, 160), many_searches_scenario),
        ],
        require: vec![
            ("full_message_id_cycles", tier.pick(4, 16)),
            ("message_id_wraps_crossed", tier.pick(12, 48)),
            ("action_id_wraps_crossed", tier.pick(12, 48)),
            ("action_ids_checked_for_repeats", tier.pick(4_000_000, 60_000_000)),
            ("queries_tid_checked", tier.pick(50_000, 1_000_000)),
            ("queries_attributed_to_an_activity", tier.pick(50_000, 1_000_000)),
            ("activities_checked_for_prefix_sharing", tier.pick(1_000, 20_000)),
            ("tids_shared_by_design_first_bootstrap_round", tier.pick(500, 10_000)),
            ("nodes_taken_past_an_action_id_block_boundary", tier.pick(16, 160)),
            ("generator_positions_across_the_40_bit_range", tier.pick(100, 3_000)),
        ],
        exhaustive: false,
    }
}
