//! C04 — every search ends, neither early nor never.

use super::{replay_info, sseed, Check, Ctx, Stream};
use crate::bed::{node_addr, world_addr};
use crate::gen;
use crate::json::J;
use crate::refcodec::{xor, Body, Id, Krpc, Query, Reply};
use crate::runner::{Report, Tier};
use crate::searchbed::{SearchBed, SearchBedOpts};
use crate::searchmon::{self, Oracle, SearchSpec};
use crate::simnet::{run_sim, settle, sleep_us, Actor, Fate, Link, Micros, Net, MS, SEC};
use crate::wiremon;
use crate::world::{run_search, spawn_node, Mode, NodeCfg, SearchResult};
use btdht::InfoHash;
use futures_util::StreamExt;
use rand::seq::SliceRandom;
use rand::{Rng, SeedableRng};
use rand_chacha::ChaCha8Rng;
use std::collections::HashMap;
use std::net::SocketAddr;
use std::time::Duration;

#[derive(Clone, Copy, Debug, PartialEq, Eq)]
enum Fault {
    AllSilent,
    SomeSilent,
    Errors,
    Garbage,
    /// Answers arrive 1.49 s after the query.
    JustInTime,
    /// Answers arrive 1.51 s after the query.
    JustLate,
    SendFailSome,
    SendFailAll,
    LossAndDelay,
    /// Every answer also names the searcher itself (own id at its own address or elsewhere); small
    /// worlds, so that the searcher is often the only not-yet-queried closer node of an answer.
    NamesSearcher,
    None,
}

const FAULTS: &[Fault] = &[
    Fault::AllSilent,
    Fault::SomeSilent,
    Fault::Errors,
    Fault::Garbage,
    Fault::JustInTime,
    Fault::JustLate,
    Fault::SendFailSome,
    Fault::SendFailAll,
    Fault::LossAndDelay,
    Fault::NamesSearcher,
    Fault::None,
];

fn faults_scenario(ctx: &Ctx, idx: u64) -> Report {
    let ctx = *ctx;
    run_sim(move || async move {
        let mut report = Report::default();
        let seed = sseed(&ctx, "faults", idx);
        let mut rng = ChaCha8Rng::seed_from_u64(seed);
        let info = replay_info("C04", "faults", &ctx, idx);
        let target: Id = gen::rand_id(&mut rng);
        let fault = FAULTS[(idx % FAULTS.len() as u64) as usize];
        let mut opts = SearchBedOpts::random(&mut rng, 120);
        opts.peers_max = 3;
        if fault == Fault::NamesSearcher {
            opts.world_size = rng.gen_range(2..10);
        }
        let bed = SearchBed::new(seed, &mut rng, opts.clone(), &target).await;
        report.evaluations += 1;
        if !bed.bootstrapped {
            report.count("precondition_miss_not_bootstrapped");
            return report;
        }
        let now = bed.net.now();
        {
            let mut w = bed.world.lock().unwrap();
            let n = w.nodes.len();
            match fault {
                Fault::AllSilent => w.nodes.iter_mut().for_each(|x| x.silent_from = now),
                Fault::SomeSilent => {
                    let p = rng.gen_range(0.1..0.95);
                    for x in w.nodes.iter_mut() {
                        if rng.gen_bool(p) {
                            x.silent_from = now;
                        }
                    }
                }
                Fault::Errors | Fault::Garbage => {
                    let p = if n > 1 { rng.gen_range(0.3..1.0) } else { 1.0 };
                    for x in w.nodes.iter_mut() {
                        if rng.gen_bool(p) {
                            x.mode = if fault == Fault::Errors { Mode::Errors } else { Mode::Garbage };
                        }
                    }
                }
                Fault::NamesSearcher => {
                    let elsewhere = if bed.v6 { crate::simnet::v6(0x77, 1, 7777) } else { crate::simnet::v4(77, 0, 0, 1, 7777) };
                    w.extra_names = vec![(bed.id, if rng.gen_bool(0.6) { bed.addr } else { elsewhere })];
                    report.count("searches_whose_answers_name_the_searcher");
                }
                Fault::JustInTime => w.exact_reply_latency = Some(1480 * MS),
                Fault::JustLate => w.exact_reply_latency = Some(1500 * MS),
                _ => {}
            }
        }
        match fault {
            Fault::JustInTime | Fault::JustLate => bed.net.set_link(Link::fixed(10 * MS)),
            Fault::SendFailSome => {
                let mut l = Link::uniform(MS, 300 * MS);
                l.fail_p = rng.gen_range(0.05..0.7);
                bed.net.set_link(l);
            }
            Fault::SendFailAll => {
                let mut l = Link::uniform(MS, 300 * MS);
                l.fail_p = 1.0;
                bed.net.set_link(l);
            }
            Fault::LossAndDelay => {
                let drop_p = rng.gen_range(0.0..0.5);
                let max = *[400 * MS, 1400 * MS, 5 * SEC].choose(&mut rng).unwrap();
                bed.net.set_link(Link {
                    lat_lo: 0,
                    lat_hi: max,
                    drop_p,
                    dup_p: 0.1,
                    fail_p: 0.0,
                });
            }
            _ => bed.net.set_link(Link::uniform(0, 400 * MS)),
        }

        let n_searches = rng.gen_range(1..=3);
        let mut handles = Vec::new();
        let log_mark = bed.net.log_len();
        let mut hashes = Vec::new();
        for s in 0..n_searches {
            let ih = if s == 0 { target } else { gen::rand_id(&mut rng) };
            let announce = rng.gen_bool(0.5);
            hashes.push((ih, announce));
            let net = bed.net.clone();
            let dht = bed.dht.clone();
            // concurrent searches for different info-hashes, started a little apart
            let delay = rng.gen_range(0..300 * MS) * s as u64;
            handles.push(tokio::spawn(async move {
                sleep_us(delay).await;
                run_search(&net, &dht, ih, announce, Duration::from_secs(600)).await
            }));
        }
        let mut results: Vec<SearchResult> = Vec::new();
        for h in handles {
            results.push(h.await.unwrap_or_default());
        }
        settle().await;
        let log = bed.net.log_since(log_mark);
        for ((ih, announce), result) in hashes.iter().zip(results.iter()) {
            let spec = SearchSpec {
                node: bed.addr,
                node_id: bed.id,
                v6: bed.v6,
                info_hash: *ih,
                announce: *announce,
                announce_port: opts.announce_port,
                result,
            };
            let mut sh = searchmon::shadow(&log, &spec);
            report.count("searches");
            report.count(&format!("searches_fault_{fault:?}"));
            report.distinct(format!(
                "{fault:?}/world{}/queries{}/accepted{}/cands{}",
                match opts.world_size {
                    1 => "1",
                    2..=8 => "2-8",
                    9..=40 => "9-40",
                    _ => ">40",
                },
                sh.queries.len().min(12),
                sh.accepted.len().min(6),
                sh.candidates.len().min(4)
            ));
            let mut oracle = Oracle {
                report: &mut report,
                info: info.clone().with("fault", format!("{fault:?}")),
                remap: &[],
            };
            oracle.check_timing(&mut sh, &spec, bed.net.now());
            oracle.check_values(&sh, &spec);
            oracle.check_announces(&sh, &spec);
            if fault == Fault::AllSilent {
                // "if nobody answers it closes about 3 s after the first query"
                if let (Some(first), Some(end)) = (sh.first_query, result.ended) {
                    report.count("silent_searches");
                    if end < first + 3 * SEC - 5 * MS || end > first + 3 * SEC + 5 * MS {
                        report.violation(
                            "C04",
                            "silent-not-3s",
                            format!("nobody answered, but the stream closed {} ms after the first query (expected 3000)", (end - first) / MS),
                            info.clone(),
                        );
                    }
                }
            }
            if fault == Fault::JustInTime {
                report.add("answers_just_in_time_accepted", sh.accepted.len() as u64);
            }
            if fault == Fault::JustLate {
                report.add("answers_just_late_ignored", sh.late_or_replayed as u64);
            }
            if idx < FAULTS.len() as u64 {
                report.sample(searchmon::sample(&sh, &spec).with("fault", format!("{fault:?}")));
            }
        }
        wiremon::always_on(&mut report, &bed.net, &[bed.addr], &info);
        let alive = crate::world::within(Duration::from_secs(5), bed.dht.get_state()).await;
        if !matches!(alive, Some(Some(_))) {
            report.cross("C15", "node-dead", "get_state() does not complete after the searches", info.clone());
        }
        report
    })
}

// ---------------------------------------------------------------------------------------------
// An adversary that answers every query just in time, each time naming exactly one closer node.

struct Chain {
    target: Id,
    len: usize,
    v6: bool,
    rtt: Micros,
    served: usize,
    values_every: usize,
}

impl Chain {
    fn id_at(&self, i: usize) -> Id {
        // distance to the target strictly decreasing along the chain
        let mut d = [0u8; 20];
        d[0] = 0x80;
        let mut dist = d;
        // subtract i from the 160-bit number 2^159
        let mut borrow = i as u64;
        for byte in dist.iter_mut().rev() {
            if borrow == 0 {
                break;
            }
            let sub = (borrow & 0xff) as u8;
            let (v, b) = byte.overflowing_sub(sub);
            *byte = v;
            borrow = (borrow >> 8) + b as u64;
        }
        xor(&self.target, &dist)
    }
    fn addr_at(&self, i: usize) -> SocketAddr {
        world_addr(self.v6, 40_000 + i as u32)
    }
}

impl Actor for Chain {
    fn on_datagram(&mut self, net: &Net, at: SocketAddr, src: SocketAddr, data: &[u8]) {
        let Ok(k) = Krpc::parse(data) else { return };
        let Body::Query { q, .. } = &k.body else { return };
        let Some(i) = (0..self.len).find(|i| self.addr_at(*i) == at) else { return };
        let mut r = Reply {
            id: self.id_at(i),
            ..Default::default()
        };
        let mut latency = 5 * MS;
        if let Query::GetPeers { .. } = q {
            if i + 1 < self.len {
                let next = (self.id_at(i + 1), self.addr_at(i + 1));
                if self.v6 {
                    r.nodes6 = vec![next];
                } else {
                    r.nodes = vec![next];
                }
            }
            r.token = Some(crate::world::token_for(self.served as u32));
            if self.values_every > 0 && i % self.values_every == 0 {
                r.values = vec![crate::world::tagged_value(self.served as u32, 0, self.v6)];
            }
            self.served += 1;
            latency = self.rtt;
        }
        net.send_from_after(at, src, Krpc::reply(&k.t, r).encode(), latency);
    }
}

fn chain_scenario(ctx: &Ctx, idx: u64) -> Report {
    let ctx = *ctx;
    run_sim(move || async move {
        let mut report = Report::default();
        let seed = sseed(&ctx, "chain", idx);
        let mut rng = ChaCha8Rng::seed_from_u64(seed);
        let info = replay_info("C04", "chain", &ctx, idx);
        let net = Net::new(seed);
        let v6 = rng.gen_bool(0.3);
        let addr = node_addr(v6, 1);
        net.set_tie_free(addr);
        net.set_link(Link::fixed(5 * MS));
        let target = gen::rand_id(&mut rng);
        let len = *[1usize, 2, 3, 10, 50, 200].choose(&mut rng).unwrap();
        let rtt_total = *[1490 * MS, 1400 * MS, 900 * MS, 100 * MS].choose(&mut rng).unwrap();
        let chain = Chain {
            target,
            len,
            v6,
            rtt: rtt_total - 5 * MS,
            served: 0,
            values_every: rng.gen_range(0..4),
        };
        let head = chain.addr_at(0);
        let owned: Vec<SocketAddr> = (0..len).map(|i| chain.addr_at(i)).collect();
        net.add_actor(move |a| owned.contains(a), chain);
        let mut cfg = NodeCfg::new(addr);
        let id = gen::rand_id(&mut rng);
        cfg.id = Some(id);
        cfg.nodes = vec![head];
        let dht = spawn_node(&net, &cfg);
        report.evaluations += 1;
        if !tokio::time::timeout(Duration::from_secs(100), dht.bootstrapped()).await.unwrap_or(false) {
            report.count("precondition_miss_not_bootstrapped");
            return report;
        }
        sleep_us(rng.gen_range(0..3 * SEC)).await;
        let mark = net.log_len();
        let announce = rng.gen_bool(0.5);
        let result = run_search(&net, &dht, target, announce, Duration::from_secs(1000)).await;
        settle().await;
        let log = net.log_since(mark);
        let spec = SearchSpec {
            node: addr,
            node_id: id,
            v6,
            info_hash: target,
            announce,
            announce_port: None,
            result: &result,
        };
        let mut sh = searchmon::shadow(&log, &spec);
        report.count("searches");
        report.count("chain_searches");
        report.maxi("longest_chain_followed", sh.accepted.len() as u64);
        report.distinct(format!("chain/len{len}/rtt{}/followed{}", rtt_total / MS, sh.accepted.len().min(201)));
        let mut oracle = Oracle {
            report: &mut report,
            info: info.clone().with("chain_len", len).with("rtt_ms", rtt_total / MS),
            remap: &[],
        };
        oracle.check_timing(&mut sh, &spec, net.now());
        oracle.check_values(&sh, &spec);
        oracle.check_announces(&sh, &spec);
        if idx < 3 {
            report.sample(searchmon::sample(&sh, &spec).with("chain_len", len).with("rtt_ms", rtt_total / MS));
        }
        wiremon::always_on(&mut report, &net, &[addr], &info);
        report
    })
}

// ---------------------------------------------------------------------------------------------
// Edge cases: no good node known, node shut down, handle / stream dropped mid-search.

fn edge_scenario(ctx: &Ctx, idx: u64) -> Report {
    let ctx = *ctx;
    let mut report = Report::default();
    let info = replay_info("C04", "edge", &ctx, idx);
    let seed = sseed(&ctx, "edge", idx);
    let kind = idx % 4;
    report.evaluations += 1;
    report.distinct(format!("edge{kind}/{}", idx % 8));
    match kind {
        // a bootstrapped node that knows nobody
        0 => {
            let r = run_sim(move || async move {
                let mut rng = ChaCha8Rng::seed_from_u64(seed);
                let net = Net::new(seed);
                let v6 = rng.gen_bool(0.5);
                let cfg = NodeCfg::new(node_addr(v6, 1));
                let dht = spawn_node(&net, &cfg);
                let ok = tokio::time::timeout(Duration::from_secs(5), dht.bootstrapped()).await.unwrap_or(false);
                sleep_us(rng.gen_range(0..100 * SEC)).await;
                let res = run_search(&net, &dht, gen::rand_id(&mut rng), rng.gen_bool(0.5), Duration::from_secs(60)).await;
                (ok, res, net.log().len())
            });
            report.count("searches");
            report.count("searches_on_node_without_contacts");
            match r.1.ended {
                Some(t) if t <= r.1.started + 2 * MS && r.0 => {}
                other => report.violation(
                    "C04",
                    "no-good-node-not-immediate",
                    format!("search on a bootstrapped node that knows no node ended at {:?} (started {}); bootstrapped={}", other, r.1.started, r.0),
                    info.clone(),
                ),
            }
        }
        // a node whose only contacts have gone bad
        1 => {
            let r = run_sim(move || async move {
                let mut rng = ChaCha8Rng::seed_from_u64(seed);
                let target = gen::rand_id(&mut rng);
                let mut opts = SearchBedOpts::random(&mut rng, 6);
                opts.contacts = 6;
                let bed = SearchBed::new(seed, &mut rng, opts, &target).await;
                let now = bed.net.now();
                bed.world.lock().unwrap().nodes.iter_mut().for_each(|n| n.silent_from = now);
                // after 15 min + two unanswered refresh queries every contact is bad
                sleep_us(25 * 60 * SEC).await;
                let contacts = bed.dht.load_contacts().await.ok();
                let res = run_search(&bed.net, &bed.dht, target, true, Duration::from_secs(60)).await;
                (contacts, res, bed.bootstrapped)
            });
            report.count("searches");
            if let (Some((good, _)), true) = (&r.0, r.2) {
                if good.is_empty() {
                    report.count("searches_on_node_whose_contacts_went_bad");
                    match r.1.ended {
                        Some(t) if t <= r.1.started + 2 * MS => {}
                        other => report.violation(
                            "C04",
                            "no-good-node-not-immediate",
                            format!("search on a node with no good contact left ended at {:?} (started {})", other, r.1.started),
                            info.clone(),
                        ),
                    }
                } else {
                    report.count("edge_precondition_miss");
                }
            }
        }
        // a node that has shut down (its runtime is gone), handle still held
        2 => {
            let dht = run_sim(move || async move {
                let net = Net::new(seed);
                let cfg = NodeCfg::new(node_addr(false, 1));
                let dht = spawn_node(&net, &cfg);
                let _ = tokio::time::timeout(Duration::from_secs(5), dht.bootstrapped()).await;
                dht
            });
            let ended = run_sim(move || async move {
                let mut stream = dht.search(InfoHash::from([7u8; 20]), true);
                tokio::time::timeout(Duration::from_millis(1), stream.next()).await
            });
            report.count("searches");
            report.count("searches_on_shut_down_node");
            if !matches!(ended, Ok(None)) {
                report.violation(
                    "C04",
                    "shutdown-not-immediate",
                    format!("search on a node that has shut down did not close immediately: {:?}", ended),
                    info.clone(),
                );
            }
        }
        // stream dropped mid-search: the node must go on, finish the search on the wire and stay usable
        _ => {
            let r = run_sim(move || async move {
                let mut rng = ChaCha8Rng::seed_from_u64(seed);
                let target = gen::rand_id(&mut rng);
                let opts = SearchBedOpts::random(&mut rng, 60);
                let bed = SearchBed::new(seed, &mut rng, opts, &target).await;
                bed.net.set_link(Link::uniform(50 * MS, 600 * MS));
                let stream = bed.dht.search(InfoHash::from(target), true);
                sleep_us(rng.gen_range(0..2 * SEC)).await;
                drop(stream);
                sleep_us(20 * SEC).await;
                let second = run_search(&bed.net, &bed.dht, target, false, Duration::from_secs(120)).await;
                let alive = crate::world::within(Duration::from_secs(5), bed.dht.get_state()).await;
                (second.ended.is_some(), matches!(alive, Some(Some(_))), bed.bootstrapped)
            });
            report.count("searches");
            if r.2 {
                report.count("searches_with_stream_dropped_mid_way");
                if !r.0 || !r.1 {
                    report.violation(
                        "C04",
                        "stuck-after-dropped-stream",
                        format!("after dropping a search stream mid-search: next search ended={} node alive={}", r.0, r.1),
                        info.clone(),
                    );
                }
            }
        }
    }
    let _ = J::Null;
    let _: HashMap<u8, u8> = HashMap::new();
    let _ = Fate::dropped();
    report
}

pub fn faults_scenario_pub(ctx: &Ctx, idx: u64) -> Report {
    faults_scenario(ctx, idx)
}

pub fn chain_scenario_pub(ctx: &Ctx, idx: u64) -> Report {
    chain_scenario(ctx, idx)
}

pub fn check(tier: Tier) -> Check {
    Check {
        id: "C04",
        level: "fault_enumeration",
        rule: "Stream faults: each of 10 fault patterns in turn (all silent, a random subset silent, KRPC \
               errors, undecodable answers, answers exactly 1.49 s / 1.51 s after the query, send failures for \
               a subset / for all datagrams, loss up to 50 % with delays up to 5 s and duplicates, none) on \
               worlds of 1..120 nodes, 1..3 concurrent searches. Stream chain: an adversary answers each query \
               after 1.49/1.4/0.9/0.1 s naming exactly one closer node, chains of 1..200. Stream edge: node \
               without contacts, node whose contacts all went bad, node that has shut down, stream dropped \
               mid-search. Oracle (wire-only shadow): a query is outstanding from its send until answered, \
               1.5 s old, or the stream closes; the stream must close exactly 1.5 s after an instant at which \
               nothing was outstanding (and at the first such instant after which the node sent nothing more), \
               never later than first query + 1.5 s x nodes told about + 3 s; every value of a response to an \
               outstanding query must be yielded. distinct_nontrivial = distinct (fault, world size class, \
               queries sent, responses accepted, end-game candidates) shapes.",
        assumptions: vec![
            "the clock of a search starts at its first query; searches issued before bootstrap completion are C16's subject",
            "datagrams reach the node tie-free (1 ms timer granularity makes same-tick races legal either way)",
            "with send failures only termination within the bound is required, as the statement says",
        ],
        deciding: vec!["C04"],
        streams: vec![
            Stream::new("faults", tier.pick(10_000, 40_000), faults_scenario),
            Stream::new("chain", tier.pick(1_000, 2400), chain_scenario),
            Stream::new("edge", tier.pick(400, 800), edge_scenario),
        ],
        require: vec![
            ("searches", tier.pick(12_500, 50_000)),
            ("silent_searches", tier.pick(200, 2000)),
            ("answers_just_in_time_accepted", tier.pick(500, 5000)),
            ("answers_just_late_ignored", tier.pick(500, 5000)),
            ("searches_with_send_failures_termination_only", tier.pick(250, 2500)),
            ("searches_closed_exactly_endgame_after_last_outstanding", tier.pick(2_500, 25_000)),
            ("chain_searches", tier.pick(250, 1000)),
            ("searches_on_node_without_contacts", tier.pick(50, 100)),
            ("searches_on_shut_down_node", tier.pick(50, 100)),
            ("searches_on_node_whose_contacts_went_bad", tier.pick(25, 50)),
            ("searches_with_stream_dropped_mid_way", tier.pick(25, 50)),
        ],
        exhaustive: false,
    }
}
