//! C09, wire level: see c09.rs.

use super::{replay_info, sseed, Ctx};
use crate::bed::{Bed, BedOpts};
use crate::gen;
use crate::json::{hex, J};
use crate::refcodec::{flip_bit, lcp, Id, Krpc, Query, Want};
use crate::runner::Report;
use crate::simnet::{run_sim, sleep_us, MIN, MS, SEC};
use crate::tabledrv::{dump, St};
use crate::wiremon;
use rand::seq::SliceRandom;
use rand::{Rng, SeedableRng};
use rand_chacha::ChaCha8Rng;
use std::collections::{BTreeSet, HashMap, HashSet};
use std::net::SocketAddr;

type Handle = (Id, SocketAddr);

/// Live part of the node's routing table, read through the hook registry.
fn snapshot(id: &Id) -> Option<(HashMap<Handle, (St, usize)>, usize)> {
    let tables = btdht::verif::tables();
    let (_, table) = tables.iter().find(|(tid, _)| <[u8; 20]>::from(*tid) == *id)?;
    let t = table.lock().unwrap();
    let (buckets, nodes) = dump(&t);
    Some((nodes.into_iter().map(|n| (n.h, (n.st, n.bucket))).collect(), buckets))
}

pub fn scenario(ctx: &Ctx, idx: u64) -> Report {
    let ctx = *ctx;
    run_sim(move || async move {
        let mut report = Report::default();
        let seed = sseed(&ctx, "wire", idx);
        let mut rng = ChaCha8Rng::seed_from_u64(seed);
        let info = replay_info("C09", "wire", &ctx, idx);
        let mut opts = BedOpts::random(&mut rng);
        opts.read_only = false;
        opts.world_size = *[1usize, 5, 9, 30, 120, 400].choose(&mut rng).unwrap();
        opts.clustered = *[0.0, 0.5, 0.95].choose(&mut rng).unwrap();
        opts.contacts = 8;
        let mut bed = Bed::new(seed, &mut rng, &opts).await;
        report.evaluations += 1;
        // age the table so that some entries are stale (questionable) or bad
        let jitter = rng.gen_range(0..45 * SEC);
        let age = *[0, 10 * SEC, 14 * MIN, 15 * MIN + jitter, 15 * MIN + jitter / 2, 40 * MIN].choose(&mut rng).unwrap();
        if rng.gen_bool(0.5) {
            // part of the world falls silent first, so that ageing produces bad nodes
            let now = bed.net.now();
            let mut w = bed.world.lock().unwrap();
            for n in w.nodes.iter_mut() {
                if rng.gen_bool(0.4) {
                    n.silent_from = now;
                }
            }
        }
        sleep_us(age).await;

        // ---- dump the table over the wire: one probe per possible bucket (+ the local id).
        // The node keeps refreshing and learning while it is probed, so the registry is read
        // before and after the sweep: and after every probe: nodes live in all snapshots must all be returned,
        // and nothing may be returned that was live in none.
        let Some((before, _)) = snapshot(&bed.id) else {
            report.inconclusive.push("hook registry has no table for the node".into());
            return report;
        };
        let mut wire_dump: BTreeSet<Handle> = BTreeSet::new();
        let mut stable: BTreeSet<Handle> = before.keys().copied().collect();
        let mut either: BTreeSet<Handle> = before.keys().copied().collect();
        let fam_want = if bed.v6 { Want::N6 } else { Want::N4 };
        for bit in 0..=160usize {
            let target = if bit == 160 { bed.id } else { flip_bit(&bed.id, bit) };
            let src = bed.client(bed.v6, 1);
            let q = Krpc::query(
                gen::tid(&mut rng),
                gen::rand_id(&mut rng),
                Query::FindNode {
                    target,
                    want: Some(fam_want),
                },
            );
            for r in bed.ask(src, &q).await {
                if let Some(r) = r.as_reply() {
                    wire_dump.extend(r.nodes.iter().chain(r.nodes6.iter()).copied());
                }
            }
            // the table is also read after every probe: a node may be live only for part of the sweep
            if let Some((now, _)) = snapshot(&bed.id) {
                stable.retain(|h| now.contains_key(h));
                either.extend(now.keys().copied());
            }
        }
        let Some((after, buckets)) = snapshot(&bed.id) else {
            report.inconclusive.push("hook registry has no table for the node".into());
            return report;
        };
        report.count("wire_tables_dumped");
        stable.retain(|h| after.contains_key(h));
        either.extend(after.keys().copied());
        // every bucket holds at most 8 nodes and one probe is aimed at each bucket, so the union of
        // the answers must cover the whole live table
        let missing: Vec<String> = stable.difference(&wire_dump).map(|h| hex(&h.0[..6])).take(5).collect();
        let extra: Vec<String> = wire_dump.difference(&either).map(|h| hex(&h.0[..6])).take(5).collect();
        if !missing.is_empty() || !extra.is_empty() {
            report.violation(
                "C09",
                "probe-dump-differs",
                format!(
                    "161 find_node probes returned {} distinct nodes, the table held {} live nodes throughout ({} buckets); never returned: {:?}; returned but never live: {:?}",
                    wire_dump.len(),
                    stable.len(),
                    buckets,
                    missing,
                    extra
                ),
                info.clone(),
            );
        }
        report.maxi("wire_most_buckets", buckets as u64);
        report.maxi("wire_most_live_nodes", stable.len() as u64);
        let n_bad_or_stale = after.values().filter(|(st, _)| *st == St::Questionable).count();
        report.add("wire_questionable_nodes_in_tables", n_bad_or_stale as u64);
        let registry_set = stable.clone();

        // ---- in half of the runs peers are stored under one info-hash first: a get_peers answer for
        // it carries many values next to its node list (the list must not suffer)
        let hot: Option<Id> = if rng.gen_bool(0.5) {
            let ih = gen::rand_id(&mut rng);
            let peer_v6 = rng.gen_bool(0.5);
            let k = *[10usize, 48, 60, 100, 130, 200].choose(&mut rng).unwrap();
            let c0 = bed.client(peer_v6, 5);
            let tok = bed
                .ask(c0, &Krpc::query(b"tk", gen::rand_id(&mut rng), Query::GetPeers { info_hash: ih, want: None }))
                .await
                .first()
                .and_then(|k| k.as_reply().and_then(|r| r.token.clone()))
                .unwrap_or_default();
            for p in 0..k {
                let src = bed.client(peer_v6, 5);
                let q = Krpc::query(gen::tid(&mut rng), gen::rand_id(&mut rng), Query::AnnouncePeer { info_hash: ih, port: Some(1 + p as u16), token: tok.clone() });
                bed.inject(src, q.encode());
            }
            sleep_us(bed.client_latency + 2 * MS).await;
            report.count("wire_tables_with_peers_stored");
            Some(ih)
        } else {
            None
        };

        // ---- replies for many targets and want variants
        let mut live: Vec<Handle> = registry_set.iter().copied().collect();
        let n_targets = ctx.tier.pick(150, 200);
        for i in 0..n_targets {
            let (target, class) = match i % 5 {
                0 if hot.is_some() && i % 2 == 0 => (hot.unwrap(), "stored-info-hash"),
                0 => (bed.id, "local"),
                1 => (flip_bit(&bed.id, rng.gen_range(0..160)), "bitflip"),
                2 => (gen::rand_id(&mut rng), "random"),
                3 if !live.is_empty() => (live.choose(&mut rng).unwrap().0, "table-node"),
                _ => {
                    let p = rng.gen_range(0..159);
                    (gen::id_with_prefix(&mut rng, &bed.id, p), "prefix")
                }
            };
            let want = gen::want(&mut rng);
            let use_get_peers = rng.gen_bool(0.4) || (class == "stored-info-hash" && rng.gen_bool(0.7));
            let src_v6 = rng.gen_bool(0.3);
            // the asker is a stranger, or (a fifth of the probes) one of the table's own live nodes
            // asking under its id from its address - the answer must not depend on who asks
            let from_table_node = if rng.gen_bool(0.2) { live.choose(&mut rng).copied() } else { None };
            let (src, asker_id) = match from_table_node {
                Some(h) => {
                    report.count("wire_probes_sent_by_a_table_node");
                    (h.1, h.0)
                }
                None => (bed.client(src_v6, 2), gen::rand_id(&mut rng)),
            };
            let q = Krpc::query(
                gen::tid(&mut rng),
                asker_id,
                if use_get_peers {
                    Query::GetPeers { info_hash: target, want }
                } else {
                    Query::FindNode { target, want }
                },
            );
            // the table must not change between the snapshots around the exchange, else no verdict
            let Some((snap_before, buckets)) = snapshot(&bed.id) else { continue };
            let replies = bed.ask(src, &q).await;
            let Some((snap_after, _)) = snapshot(&bed.id) else { continue };
            if snap_before != snap_after {
                report.count("wire_probes_skipped_table_changed");
                continue;
            }
            let registry = snap_before;
            live = registry.keys().copied().collect();
            live.sort();
            // (a table node may also be sent a query of the node's own in the same window: take the reply)
            let Some(r) = replies.iter().find_map(|k| k.as_reply()) else {
                report.cross("C05", "no-reply", "serving node did not answer a find_node/get_peers probe", info.clone());
                continue;
            };
            report.count("wire_replies_checked");
            report.distinct(format!("B{}/live{}/{:?}/{class}", buckets.min(40), live.len().min(20), want));
            let (want4, want6) = match want {
                None => (!bed.v6, bed.v6),
                Some(Want::N4) => (true, false),
                Some(Want::N6) => (false, true),
                Some(Want::Both) => (true, true),
            };
            for (list, wanted, is_v6) in [(&r.nodes, want4, false), (&r.nodes6, want6, true)] {
                let live_fam: Vec<&Handle> = live.iter().filter(|h| h.1.is_ipv6() == is_v6).collect();
                let expect_len = if wanted { live_fam.len().min(8) } else { 0 };
                let mut bad = |sig: &str, what: String| {
                    report.violation(
                        "C09",
                        sig,
                        format!("{what} (target {} [{class}], want {want:?}, {} buckets, {} live nodes)", hex(&target), buckets, live.len()),
                        info.clone().with("target", hex(&target)),
                    );
                };
                if list.len() != expect_len {
                    bad("list-length", format!("node list has {} entries, expected min(8, live nodes of that family) = {expect_len}", list.len()));
                    continue;
                }
                let mut seen = HashSet::new();
                for h in list.iter() {
                    if !seen.insert(*h) {
                        bad("listed-twice", format!("node {} listed twice", hex(&h.0)));
                    }
                    if !registry.contains_key(h) {
                        bad("not-live", format!("listed node {}@{} is not a good or questionable table node", hex(&h.0), h.1));
                    }
                    if h.1.is_ipv6() != is_v6 {
                        bad("wrong-family", format!("node {} has the wrong address family", h.1));
                    }
                }
                if wanted {
                    let l = lcp(&bed.id, &target);
                    for h in live_fam {
                        if lcp(&h.0, &target) > l && !seen.contains(h) {
                            bad(
                                "closer-node-missing",
                                format!("live node {} shares {} prefix bits with the target (local id {l}) but is not listed", hex(&h.0), lcp(&h.0, &target)),
                            );
                        }
                    }
                }
            }
        }
        if idx < 2 {
            report.sample(
                J::obj()
                    .with("world_size", opts.world_size)
                    .with("clustered", opts.clustered)
                    .with("aged_s", age / SEC)
                    .with("buckets", buckets)
                    .with("live_nodes", registry_set.len())
                    .with("questionable", n_bad_or_stale),
            );
        }
        wiremon::always_on(&mut report, &bed.net, &[bed.addr], &info);
        report
    })
}
