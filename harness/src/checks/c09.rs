//! C09 — find_node / get_peers list up to 8 distinct live table nodes, nearest bucket first.

use super::{c08, Check, Stream};
use crate::runner::Tier;
use crate::tabledrv::Focus;

pub fn check(tier: Tier) -> Check {
    Check {
        id: "C09",
        level: "exploration",
        rule: "Stream module: the C08 operation histories (tables of 1..160 buckets, partially filled, with \
               stale and bad entries) with the nearest-node enumeration evaluated every 7th operation for 6 \
               targets (local id, random, single-bit flips of the local id and of table nodes, ids of table \
               nodes, ids sharing a chosen prefix with the local id): it must visit every live node exactly \
               once, never a bad one, and its first 8 entries must contain every live node sharing a longer \
               prefix with the target than the local id does. Stream wire: a real serving node whose table was \
               grown by real traffic against scripted worlds (ids clustered on the local id => many buckets), \
               then aged; the table is dumped over the wire with 161 find_node probes from unknown senders and \
               compared with the hook registry dump; then find_node / get_peers with all want variants for \
               many targets: distinct live nodes of the requested family, exactly min(8, live) entries, all \
               closer-prefix nodes included. distinct_nontrivial = distinct table shapes reached (module) + \
               distinct (bucket count, live nodes, want, target class) (wire).",
        assumptions: vec![
            "module level observes the iterator through the guarded re-export; wire level observes replies only",
        ],
        deciding: vec!["C09"],
        streams: vec![
            Stream::new("module", tier.pick(64, 640), |ctx, idx| {
                c08::history_scenario(ctx, idx, "C09", "module", Focus::Table, 7)
            })
            .budget(tier.pick(900.0, 3000.0), tier.pick(64, 320)),
            Stream::new("wire", tier.pick(128, 2400), crate::checks::c09wire::scenario).budget(tier.pick(900.0, 3000.0), tier.pick(128, 1200)),
        ],
        require: vec![
            ("closest_enumerations_checked", tier.pick(300_000, 30_000_000)),
            ("wire_replies_checked", tier.pick(10_000, 200_000)),
            ("wire_tables_dumped", tier.pick(50, 1000)),
        ],
        exhaustive: false,
    }
}
