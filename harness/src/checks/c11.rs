//! C11 — over hours, responsive contacts are kept fresh and silent ones are purged.

use super::{Check, Stream};
use crate::contacts;
use crate::runner::Tier;

pub fn check(tier: Tier) -> Check {
    Check {
        id: "C11",
        level: "exploration",
        rule: "One real node (serving or read-only) with 1..8 scripted contacts, every partition into \
               always-answering and silent-from-t (t from 0 to hours; in a fifth of the runs every contact goes silent), started with all contacts or with a \
               single one (the others learnt by hearsay; fewer than 10 good nodes => periodic re-bootstrap), \
               world nodes keep or stop naming silent nodes, one-way latency < 10/100/240 ms, with and without \
               interleaved searches, 2..3 (quick) / 2..12 (thorough) virtual hours. load_contacts() is sampled \
               once per virtual second (a contact with a datagram in flight is skipped: transient state) and \
               find_node probes are sent every 3 minutes. Interval oracle: an always-answering contact is never \
               missing once admitted and never not-good for more than 30 s; a silent contact is gone from the \
               contacts and from find_node answers after max(last answer + 20 min, last mention + 5 min). \
               distinct_nontrivial = distinct (contacts, silent ones, start regime, serving, latency, hours).",
        assumptions: vec![
            "loss-free premise read as: replies arrive within the node's own 500 ms bootstrap timeout (one-way latency < 250 ms)",
            "'arbitrarily long' is explored up to 12 virtual hours (about 48 ageing cycles)",
        ],
        deciding: vec!["C11"],
        streams: vec![Stream::new("timeline", tier.pick(320, 1200), |ctx, idx| {
            contacts::scenario(ctx, idx, "C11", "timeline")
        })
        .budget(tier.pick(900.0, 3000.0), tier.pick(320, 600))],
        require: vec![
            ("c11_responsive_samples", tier.pick(1_500_000, 10_000_000)),
            ("c11_runs_where_every_contact_goes_silent", tier.pick(20, 80)),
            ("c11_silent_samples_past_deadline", tier.pick(400_000, 2_000_000)),
            ("c11_responsive_contacts_followed", tier.pick(400, 1500)),
            ("c11_silent_contacts_followed", tier.pick(300, 1200)),
            ("c11_probe_answers_past_deadline", tier.pick(1500, 8000)),
        ],
        exhaustive: false,
    }
}
