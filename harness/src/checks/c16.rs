//! C16 — a search requested before bootstrap finishes is carried out, not dropped.
//!
//! Differential within one run: the set of peers an early search yields must equal the set the
//! same search yields when issued right after `bootstrapped()` resolves.

use super::{replay_info, sseed, Check, Ctx, Stream};
use crate::bed::{node_addr, world_addr};
use crate::gen;
use crate::json::J;
use crate::refcodec::Id;
use crate::runner::{Report, Tier};
use crate::searchbed::{place_ids, Placement};
use crate::simnet::{run_sim, settle, sleep_us, Link, Micros, Net, MS, SEC};
use crate::wiremon;
use crate::world::{run_search, spawn_node, NodeCfg, SearchResult, WNode, World};
use rand::seq::SliceRandom;
use rand::{Rng, SeedableRng};
use rand_chacha::ChaCha8Rng;
use std::collections::{BTreeSet, HashSet};
use std::net::SocketAddr;
use std::time::Duration;

fn scenario(ctx: &Ctx, idx: u64) -> Report {
    let ctx = *ctx;
    run_sim(move || async move {
        let mut report = Report::default();
        let seed = sseed(&ctx, "early", idx);
        let mut rng = ChaCha8Rng::seed_from_u64(seed);
        let info = replay_info("C16", "early", &ctx, idx);
        let net = Net::new(seed);
        let v6 = rng.gen_bool(0.3);
        let addr = node_addr(v6, 1);
        net.set_tie_free(addr);
        let id = gen::rand_id(&mut rng);
        let target = gen::rand_id(&mut rng);

        // Stable world: only the 8 nodes closest to the target hold peers, and each always returns
        // the same ones, so two complete searches for the target must yield the same set.
        let world_size = rng.gen_range(3..80);
        let placement = *[Placement::Uniform, Placement::AroundTarget, Placement::Mixed].choose(&mut rng).unwrap();
        let ids = place_ids(&mut rng, world_size, placement, &target, &id);
        let mut nodes: Vec<WNode> = ids
            .into_iter()
            .enumerate()
            .map(|(i, wid)| WNode::new(wid, world_addr(v6, i as u32)))
            .collect();
        // The contacts stay silent until `t_up` (bootstrap takes that long plus back-off).
        let t_up: Micros = *[0, 40 * MS, SEC, 10 * SEC, 60 * SEC, 300 * SEC].choose(&mut rng).unwrap();
        for n in nodes.iter_mut() {
            n.silent_from = 0;
            n.silent_until = t_up;
        }
        let n_contacts = rng.gen_range(1..=8usize).min(world_size);
        let contacts: Vec<SocketAddr> = nodes
            .choose_multiple(&mut rng, n_contacts)
            .map(|n| n.addr)
            .collect();
        let mut world = World::new(nodes);
        world.stable_values = true;
        world.keep_served = false;
        let closest = world.closest(&target, 8, None, v6);
        for i in closest {
            world.nodes[i].peers = rng.gen_range(1..4);
        }
        let owned: HashSet<SocketAddr> = world.index.keys().copied().collect();
        net.add_actor(move |a| owned.contains(a), world);
        let one_way = *[2 * MS, 20 * MS, 200 * MS].choose(&mut rng).unwrap();
        net.set_link(Link::uniform(0, one_way));

        let mut cfg = NodeCfg::new(addr);
        cfg.id = Some(id);
        cfg.read_only = rng.gen_bool(0.5);
        cfg.nodes = contacts;
        net.set_send_yield(*[0.0, 0.0, 0.3, 1.0].choose(&mut rng).unwrap());
        let dht = spawn_node(&net, &cfg);
        report.evaluations += 1;
        // other API calls (state polling) racing the deliveries that complete the bootstrap
        let hammer = if rng.gen_bool(0.5) {
            Some(crate::world::api_hammer(&net, &dht, addr, seed, *[0.1, 0.5, 1.0].choose(&mut rng).unwrap(), 3000))
        } else {
            None
        };

        // Some early searches are issued in the very tick a datagram reaches the node (e.g. the
        // first replies of the bootstrap), so that the API call and the network event race.
        let aligned: std::sync::Arc<std::sync::Mutex<Vec<tokio::task::JoinHandle<SearchResult>>>> = Default::default();
        if rng.gen_bool(0.5) {
            let (dht3, net3, aligned3) = (dht.clone(), net.clone(), aligned.clone());
            let mut orng = ChaCha8Rng::seed_from_u64(seed ^ 0xa11);
            let mut left = 3;
            net.add_observer(addr, move |_w| {
                if left > 0 && orng.gen_bool(0.2) {
                    left -= 1;
                    let (dht4, net4) = (dht3.clone(), net3.clone());
                    aligned3.lock().unwrap().push(tokio::spawn(async move {
                        run_search(&net4, &dht4, target, false, Duration::from_secs(1500)).await
                    }));
                }
            });
        }

        // ---- a fire-and-forget early announce: search(hash, true) whose stream is dropped at once, before
        // the bootstrap has completed (further search() calls follow). It must still be carried out:
        // judged on the wire against the same call made right after bootstrap.
        let forget_early = gen::rand_id(&mut rng);
        let forget_late = gen::rand_id(&mut rng);
        let fire_and_forget = rng.gen_bool(0.4);
        if fire_and_forget {
            let (dht5, net5) = (dht.clone(), net.clone());
            let at = rng.gen_range(0..=t_up + SEC);
            tokio::spawn(async move {
                sleep_us(at).await;
                let _ = net5.now();
                drop(dht5.search(btdht::InfoHash::from(forget_early), true));
            });
        }

        // ---- early searches, issued at chosen instants relative to start
        let n_early = rng.gen_range(1..=10);
        let mut handles = Vec::new();
        for e in 0..n_early {
            let at: Micros = match (e, rng.gen_range(0..4)) {
                (0, _) => 0, // before the node has sent its first datagram
                (_, 0) => rng.gen_range(0..=one_way.max(1)),
                (_, 1) => rng.gen_range(0..=t_up + SEC),
                _ => rng.gen_range(0..=t_up + 20 * SEC),
            };
            let announce = rng.gen_bool(0.5);
            let net2 = net.clone();
            let dht2 = dht.clone();
            handles.push((
                at,
                announce,
                tokio::spawn(async move {
                    sleep_us(at).await;
                    run_search(&net2, &dht2, target, announce, Duration::from_secs(1500)).await
                }),
            ));
            if e == 0 {
                // make sure the first one is issued before anything else happens
                tokio::task::yield_now().await;
            }
        }

        let booted = tokio::time::timeout(Duration::from_secs(1200), dht.bootstrapped())
            .await
            .unwrap_or(false);
        let t_boot = net.now();
        if let Some(h) = &hammer {
            report.add("api_calls_racing_deliveries", h.lock().unwrap().calls);
        }
        if !booted {
            report.count("precondition_miss_not_bootstrapped");
            for (_, _, h) in handles {
                h.abort();
            }
            return report;
        }
        // ---- reference search right after bootstrap completion
        let reference = run_search(&net, &dht, target, false, Duration::from_secs(600)).await;
        let reference_set: BTreeSet<SocketAddr> = reference.items.iter().map(|(_, a)| *a).collect();
        if reference.ended.is_none() || reference_set.is_empty() {
            report.count("precondition_miss_reference_search_found_nothing");
            for (_, _, h) in handles {
                h.abort();
            }
            return report;
        }
        // a second reference must agree with the first, otherwise the world is not stable enough
        // for a differential verdict
        let reference2 = run_search(&net, &dht, target, false, Duration::from_secs(600)).await;
        let reference2_set: BTreeSet<SocketAddr> = reference2.items.iter().map(|(_, a)| *a).collect();
        if reference2_set != reference_set {
            report.count("precondition_miss_reference_not_reproducible");
            for (_, _, h) in handles {
                h.abort();
            }
            return report;
        }
        report.count("runs_with_reference");
        if fire_and_forget {
            // the control: the same fire-and-forget announce right after bootstrap
            drop(dht.search(btdht::InfoHash::from(forget_late), true));
        }

        let mut results: Vec<(Micros, bool, SearchResult)> = Vec::new();
        for (at, announce, h) in handles {
            results.push((at, announce, h.await.unwrap_or_default()));
        }
        let aligned_handles: Vec<_> = std::mem::take(&mut *aligned.lock().unwrap());
        for h in aligned_handles {
            if let Ok(r) = h.await {
                if r.started < t_boot {
                    report.count("early_searches_aligned_with_a_delivery");
                }
                results.push((r.started.max(1), false, r));
            }
        }
        settle().await;
        if fire_and_forget {
            sleep_us(30 * SEC).await;
            let announces_for = |ih: &Id| -> usize {
                net.log()
                    .iter()
                    .filter(|w| w.ev == crate::simnet::Ev::Send && w.src == addr)
                    .filter_map(|w| crate::refcodec::Krpc::parse(&w.data).ok())
                    .filter(|k| matches!(&k.body, crate::refcodec::Body::Query { q: crate::refcodec::Query::AnnouncePeer { info_hash, .. }, .. } if info_hash == ih))
                    .count()
            };
            let (early, late) = (announces_for(&forget_early), announces_for(&forget_late));
            if late > 0 {
                report.count("fire_and_forget_early_announces_judged");
                if early == 0 {
                    report.violation(
                        "C16",
                        "early-fire-and-forget-announce-dropped",
                        format!("search(hash, true) issued before bootstrap completion with its stream dropped at once was never carried out (0 announce_peer sent), the same call right after bootstrap sent {late}"),
                        info.clone(),
                    );
                }
            }
        }
        for (at, announce, r) in &results {
            let early = r.started < t_boot;
            if !early {
                report.count("searches_issued_after_completion");
                continue;
            }
            report.count("early_searches");
            if *at == 0 {
                report.count("early_searches_before_first_datagram");
            }
            report.distinct(format!(
                "t_up{}/{}/lat{}/announce{}/world{}",
                t_up / MS,
                if *at == 0 {
                    "at-start"
                } else if *at < t_up {
                    "while-unreachable"
                } else {
                    "while-bootstrapping"
                },
                one_way / MS,
                announce,
                world_size / 20
            ));
            let set: BTreeSet<SocketAddr> = r.items.iter().map(|(_, a)| *a).collect();
            match r.ended {
                None => report.violation(
                    "C16",
                    "early-search-never-ends",
                    format!("search issued {} ms after start (bootstrap completed at {} ms) was still open 1500 s later", r.started / MS, t_boot / MS),
                    info.clone(),
                ),
                Some(end) => {
                    if end < t_boot.saturating_sub(2 * MS) {
                        report.violation(
                            "C16",
                            "early-search-closed-before-bootstrap",
                            format!(
                                "search issued {} ms after start closed at {} ms with {} peer(s), before the initial bootstrap completed at {} ms; the same search after bootstrap yields {} peer(s)",
                                r.started / MS,
                                end / MS,
                                set.len(),
                                t_boot / MS,
                                reference_set.len()
                            ),
                            info.clone().with("issued_ms", r.started / MS).with("bootstrap_completed_ms", t_boot / MS),
                        );
                    } else if set != reference_set {
                        report.violation(
                            "C16",
                            "early-search-differs",
                            format!(
                                "search issued {} ms after start (bootstrap completed at {} ms) yielded {} peer(s), the same search right after bootstrap yields {}",
                                r.started / MS,
                                t_boot / MS,
                                set.len(),
                                reference_set.len()
                            ),
                            info.clone(),
                        );
                    } else {
                        report.count("early_searches_equal_to_reference");
                    }
                }
            }
        }
        if idx < 3 {
            report.sample(
                J::obj()
                    .with("contacts_silent_until_ms", t_up / MS)
                    .with("bootstrap_completed_ms", t_boot / MS)
                    .with("reference_peers", reference_set.len())
                    .with(
                        "early_searches",
                        results
                            .iter()
                            .map(|(at, a, r)| {
                                J::obj()
                                    .with("issued_ms", at / MS)
                                    .with("announce", *a)
                                    .with("peers", r.items.len())
                                    .with("ended_ms", r.ended.map(|e| J::from(e / MS)).unwrap_or(J::Null))
                            })
                            .collect::<Vec<_>>(),
                    ),
            );
        }
        wiremon::always_on(&mut report, &net, &[addr], &info);
        let _: Option<Id> = None;
        report
    })
}

pub fn scenario_pub(ctx: &Ctx, idx: u64) -> Report {
    scenario(ctx, idx)
}

pub fn check(tier: Tier) -> Check {
    Check {
        id: "C16",
        level: "exploration",
        rule: "A real node with 1..8 contacts in a stable scripted world of 3..80 nodes (only the 8 nodes \
               closest to the target hold peers, always the same ones); the contacts stay unreachable for \
               {0, 40 ms, 1 s, 10 s, 60 s, 300 s} so the initial bootstrap takes that long plus back-off; 1..10 \
               searches are issued at t = 0 (before the first datagram), while unreachable, and while \
               bootstrapping, with and without announce. After bootstrapped() resolves the same search is run \
               twice as reference (both must agree, else no verdict). Oracle: an early search must not close \
               before bootstrap completion and must yield exactly the reference set. distinct_nontrivial = \
               distinct (outage length, call phase, latency, announce, world size class).",
        assumptions: vec![
            "both reference searches after bootstrap agree (checked in every run; otherwise the run gives no verdict)",
        ],
        deciding: vec!["C16"],
        streams: vec![Stream::new("early", tier.pick(4_500, 30_000), scenario)],
        require: vec![
            ("early_searches", tier.pick(9_000, 60_000)),
            ("early_searches_before_first_datagram", tier.pick(3_000, 20_000)),
            ("early_searches_equal_to_reference", tier.pick(0, 0)),
            ("runs_with_reference", tier.pick(3_000, 20_000)),
        ],
        exhaustive: false,
    }
}
