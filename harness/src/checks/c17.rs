//! C17 — every datagram the node emits fits its peers' 1500-byte receive buffer.
//!
//! Oracle: length of every datagram handed to the socket (wiremon::check_sizes, always on in every
//! simulated scenario). Dedicated stream: peer stores of 0..500 peers on one info-hash, full
//! routing tables, every `want`, transaction ids up to 32 bytes, all query kinds. Streams mixed-*:
//! other properties' scenarios re-run with the size monitor deciding.

use super::{c03, c05, c0607, c15, replay_info, sseed, Check, Ctx, Stream};
use crate::bed::{Bed, BedOpts};
use crate::gen;
use crate::json::J;
use crate::refcodec::{Krpc, Query};
use crate::runner::{Report, Tier};
use crate::simnet::{run_sim, sleep_us, MS};
use crate::wiremon;
use rand::seq::SliceRandom;
use rand::{Rng, SeedableRng};
use rand_chacha::ChaCha8Rng;

fn store_scenario(ctx: &Ctx, idx: u64) -> Report {
    let ctx = *ctx;
    run_sim(move || async move {
        let mut report = Report::default();
        let seed = sseed(&ctx, "store", idx);
        let mut rng = ChaCha8Rng::seed_from_u64(seed);
        let info = replay_info("C17", "store", &ctx, idx);
        let mut opts = BedOpts::random(&mut rng);
        opts.read_only = false;
        opts.world_size = *[0usize, 9, 120, 400].choose(&mut rng).unwrap();
        opts.clustered = *[0.0, 0.9].choose(&mut rng).unwrap();
        let mut bed = Bed::new(seed, &mut rng, &opts).await;
        report.evaluations += 1;
        let peers = *[0usize, 1, 20, 60, 70, 140, 148, 149, 150, 200, 350, 500].choose(&mut rng).unwrap();
        let peer_v6 = rng.gen_bool(0.4);
        let ih = gen::rand_id(&mut rng);
        // token for the announcing client IP
        let c0 = bed.client(peer_v6, 3);
        let tok = bed
            .ask(c0, &Krpc::query(b"tk", gen::rand_id(&mut rng), Query::GetPeers { info_hash: ih, want: None }))
            .await
            .first()
            .and_then(|k| k.as_reply().and_then(|r| r.token.clone()))
            .unwrap_or_default();
        // either `peers` distinct contacts, or the same handful announced over and over (renewals
        // must not make the answer grow)
        let renewals_of = if rng.gen_bool(0.3) { Some(rng.gen_range(1..=6usize)) } else { None };
        if renewals_of.is_some() {
            report.count("stores_filled_by_renewals_only");
        }
        for p in 0..peers {
            let src = bed.client(peer_v6, 3);
            let q = Krpc::query(
                gen::tid(&mut rng),
                gen::rand_id(&mut rng),
                Query::AnnouncePeer {
                    info_hash: ih,
                    port: Some(1 + (match renewals_of { Some(k) => p % k, None => p }) as u16),
                    token: tok.clone(),
                },
            );
            bed.inject(src, q.encode());
            if p % 50 == 49 {
                sleep_us(bed.client_latency + MS).await;
            }
        }
        sleep_us(bed.client_latency + 2 * MS).await;
        report.distinct(format!("peers{peers}/v6{peer_v6}/world{}/node_v6{}", opts.world_size, bed.v6));
        // all query kinds, every want, long transaction ids, both requester families
        let n = ctx.tier.pick(60, 200);
        let mut largest = 0usize;
        for i in 0..n {
            let fam = if i % 3 == 0 { !peer_v6 } else { peer_v6 };
            let src = bed.client(fam, 4);
            let tid_len = *[0usize, 2, 8, 31, 32].choose(&mut rng).unwrap();
            let t = gen::bytes(&mut rng, tid_len);
            let q = match i % 4 {
                0 | 1 => Query::GetPeers { info_hash: ih, want: gen::want(&mut rng) },
                // find_node for arbitrary targets and for the very id peers are stored under
                2 => Query::FindNode { target: if rng.gen_bool(0.5) { ih } else { gen::id(&mut rng) }, want: gen::want(&mut rng) },
                _ => {
                    if rng.gen_bool(0.5) {
                        Query::Ping
                    } else {
                        // tokens of any length: the query still fits a datagram
                        let tl = *[0usize, 20, 21, 200, 700, 1000, 1300].choose(&mut rng).unwrap();
                        Query::AnnouncePeer { info_hash: ih, port: None, token: gen::bytes(&mut rng, tl) }
                    }
                }
            };
            let mark = bed.net.log_len();
            bed.inject(src, Krpc::query(t, gen::rand_id(&mut rng), q).encode());
            sleep_us(bed.client_latency + MS).await;
            for w in bed.sent_to(&src, mark) {
                largest = largest.max(w.data.len());
                report.count("replies_measured");
            }
        }
        report.maxi("largest_reply_bytes", largest as u64);
        if idx < 3 {
            report.sample(
                J::obj()
                    .with("peers_stored_on_the_info_hash", peers)
                    .with("peer_family_v6", peer_v6)
                    .with("routing_world", opts.world_size)
                    .with("largest_reply_bytes", largest),
            );
        }
        wiremon::always_on(&mut report, &bed.net, &[bed.addr], &info);
        report
    })
}

pub fn check(tier: Tier) -> Check {
    Check {
        id: "C17",
        level: "exploration",
        rule: "Stream store: a serving node (IPv4/IPv6, routing table filled from worlds of 0..400 nodes) gets \
               {0,1,20,60,70,140,148,149,150,200,350,500} peers of one family (or, in 30 % of the runs, 1..6 peers re-announced that many times) announced on one info-hash and is \
               then asked get_peers / find_node (random targets and the info-hash itself) / ping / announce_peer (tokens of 0..1300 bytes) with every want, transaction ids of \
               0..32 bytes and requesters of both families. Streams mixed-*: the query storm of C05, the store \
               histories of C06/C07, the hostile searches of C03 and the bootstrap configurations of C15 are \
               re-run. Oracle: length of every datagram passed to the socket <= 1500. Oversize replies to get_peers \
               queries (matched by source and transaction id) that would fit without their values entries but not with every distinct value listed once are the known finding \
               C17-values-uncapped (see KNOWN_FINDINGS.txt); every other oversize datagram is a violation. \
               distinct_nontrivial = distinct (peers stored, peer family, world size, node family) plus the \
               scenario classes of the re-run streams.",
        assumptions: vec!["1500 bytes is the receive buffer of every instance of this implementation (Socket::recv)"],
        deciding: vec!["C17"],
        streams: vec![
            Stream::new("store", tier.pick(120, 2400), store_scenario),
            Stream::new("mixed-storm", tier.pick(100, 1000), c05::storm_scenario_pub),
            Stream::new("mixed-stores", tier.pick(48, 480), |ctx, idx| c0607::handler_history(ctx, idx, "C07")),
            Stream::new("mixed-searches", tier.pick(100, 1000), c03::scenario_pub),
            Stream::new("mixed-bootstrap", tier.pick(100, 1000), c15::scenario_pub),
        ],
        require: vec![
            ("datagrams_size_checked", tier.pick(80_000, 1_500_000)),
            ("replies_measured", tier.pick(5_000, 200_000)),
        ],
        exhaustive: false,
    }
}
