//! Turns a merged report into evidence file, output lines and exit code.

use crate::json::J;
use crate::runner::{Report, Tier, Violation};
use std::{fs, path::PathBuf};

pub const EXIT_OK: i32 = 0;
pub const EXIT_VIOLATION: i32 = 1;
pub const EXIT_INCONCLUSIVE: i32 = 2;

pub fn verif_root() -> PathBuf {
    std::env::var_os("VERIF_ROOT")
        .map(PathBuf::from)
        .unwrap_or_else(|| PathBuf::from("/verif"))
}

pub struct KnownFinding {
    pub prop: String,
    pub sig: String,
    pub text: String,
}

/// Open findings from KNOWN_FINDINGS.txt (`open: property=<id> sig=<sig> <text>`); `fixed:` lines
/// are documentation and suppress nothing.
pub fn load_known_findings() -> Vec<KnownFinding> {
    let path = verif_root().join("KNOWN_FINDINGS.txt");
    let Ok(text) = fs::read_to_string(path) else {
        return Vec::new();
    };
    let mut out = Vec::new();
    for line in text.lines() {
        let line = line.trim();
        let Some(rest) = line.strip_prefix("open:") else {
            continue;
        };
        let mut prop = None;
        let mut sig = None;
        let mut words = Vec::new();
        for w in rest.split_whitespace() {
            if let Some(p) = w.strip_prefix("property=") {
                if prop.is_none() {
                    prop = Some(p.to_owned());
                    continue;
                }
            }
            if let Some(s) = w.strip_prefix("sig=") {
                if sig.is_none() {
                    sig = Some(s.to_owned());
                    continue;
                }
            }
            words.push(w);
        }
        if let (Some(prop), Some(sig)) = (prop, sig) {
            out.push(KnownFinding {
                prop,
                sig,
                text: words.join(" "),
            });
        }
    }
    out
}

pub struct Meta<'a> {
    pub prop: &'a str,
    pub tier: Tier,
    pub seed: u64,
    pub level: &'a str,
    pub rule: &'a str,
    pub assumptions: &'a [&'a str],
    /// (counter, minimum) pairs: the run is inconclusive if a counter stays below its minimum.
    pub require: Vec<(String, u64)>,
    pub wall_s: f64,
    /// Properties whose violations decide this check's verdict (normally just `prop`).
    pub deciding: Vec<String>,
    pub evidence_path: Option<PathBuf>,
    pub exhaustive: bool,
}

fn violation_json(v: &Violation) -> J {
    J::obj()
        .with("property", v.prop.as_str())
        .with("signature", v.sig.as_str())
        .with("what", v.what.as_str())
        .with("replay", v.replay.clone())
}

/// Write evidence, print verdict lines, return the exit code.
pub fn conclude(meta: Meta, mut report: Report) -> i32 {
    let root = verif_root();
    let known = load_known_findings();

    // Panics inside node tasks / library code are violations of C14 (hostile input) or C15
    // (configuration) depending on the check; every check treats them as deciding if it owns one
    // of them, otherwise as cross observation.
    let panics = std::mem::take(&mut report.panics);
    for (loc, msg) in &panics {
        let owner = if meta.deciding.iter().any(|p| p == "C14") {
            "C14"
        } else if meta.deciding.iter().any(|p| p == "C15") {
            "C15"
        } else {
            "C15"
        };
        let v = Violation {
            prop: owner.to_owned(),
            sig: format!("panic@{loc}"),
            what: format!("panic in node/library code at {loc}: {msg}"),
            replay: J::obj().with("panic_location", loc.as_str()).with("message", msg.as_str()),
        };
        if meta.deciding.iter().any(|p| p == owner) {
            report.violations.push(v);
        } else {
            report.cross.push(v);
        }
    }

    // Split violations into deciding / cross.
    let mut deciding = Vec::new();
    let mut cross = std::mem::take(&mut report.cross);
    for v in std::mem::take(&mut report.violations) {
        if meta.deciding.iter().any(|p| *p == v.prop) {
            deciding.push(v);
        } else {
            cross.push(v);
        }
    }

    // Known findings.
    let mut known_seen: Vec<(String, String, u64)> = Vec::new();
    let mut real = Vec::new();
    for v in deciding {
        if let Some(k) = known.iter().find(|k| k.prop == v.prop && k.sig == v.sig) {
            if !known_seen.iter().any(|e| e.0 == k.sig) {
                let n = report.get(&format!("violations_seen[{}:{}]", v.prop, v.sig)).max(1);
                known_seen.push((k.sig.clone(), k.text.clone(), n));
            }
        } else {
            real.push(v);
        }
    }

    for (k, min) in &meta.require {
        let have = report.get(k);
        if have < *min {
            report
                .inconclusive
                .push(format!("vacuity: counter {k} = {have} < required {min}"));
        }
    }

    let distinct = report.distinct.len() as u64 + report.distinct_extra;
    let mut coverage = J::obj()
        .with("evaluations", report.evaluations)
        .with("distinct_nontrivial", distinct)
        .with("rule", meta.rule)
        .with("samples", J::Arr(report.samples.clone()));
    if meta.exhaustive {
        coverage.set("exhaustive", true);
    }
    let mut counters = J::obj();
    for (k, v) in &report.counters {
        counters.set(k, *v);
    }
    coverage.set("counters", counters);
    let mut maxes = J::obj();
    for (k, v) in &report.max {
        maxes.set(k, *v);
    }
    coverage.set("maxima", maxes);
    coverage.set(
        "violations_found",
        J::Arr(real.iter().take(10).map(violation_json).collect()),
    );
    coverage.set(
        "known_findings_seen",
        J::Arr(
            known_seen
                .iter()
                .map(|(sig, text, n)| {
                    J::obj()
                        .with("signature", sig.as_str())
                        .with("text", text.as_str())
                        .with("occurrences", *n)
                })
                .collect(),
        ),
    );
    coverage.set(
        "cross_observations",
        J::Arr(cross.iter().take(10).map(violation_json).collect()),
    );
    coverage.set(
        "inconclusive_reasons",
        J::Arr(report.inconclusive.iter().take(10).map(|s| J::s(s.as_str())).collect()),
    );
    coverage.set(
        "panics_observed",
        J::Arr(
            panics
                .iter()
                .take(10)
                .map(|(l, m)| J::s(format!("{l}: {m}")))
                .collect(),
        ),
    );

    let verdict = if !real.is_empty() {
        "violated"
    } else if !report.inconclusive.is_empty() {
        "inconclusive"
    } else {
        "held on what was observed"
    };
    coverage.set("verdict", verdict);

    let evidence = J::obj()
        .with("property_id", meta.prop)
        .with("tier", meta.tier.name())
        .with("seed", meta.seed)
        .with("level", meta.level)
        .with("coverage", coverage)
        .with(
            "assumptions",
            J::Arr(meta.assumptions.iter().map(|s| J::s(*s)).collect()),
        )
        .with("wall_s", meta.wall_s)
        .with("violations", real.len());

    let evidence_path = meta
        .evidence_path
        .clone()
        .unwrap_or_else(|| root.join("evidence").join(format!("{}.json", meta.prop)));
    if let Some(dir) = evidence_path.parent() {
        let _ = fs::create_dir_all(dir);
    }
    if let Err(e) = fs::write(&evidence_path, evidence.to_string() + "\n") {
        eprintln!("cannot write evidence {}: {e}", evidence_path.display());
    }

    println!(
        "{} {} seed={} evaluations={} distinct={} wall={:.1}s verdict={}",
        meta.prop,
        meta.tier.name(),
        meta.seed,
        report.evaluations,
        distinct,
        meta.wall_s,
        verdict
    );
    for (k, v) in &report.counters {
        println!("  counter {k} = {v}");
    }
    for (k, v) in &report.max {
        println!("  max {k} = {v}");
    }
    for v in cross.iter().take(10) {
        println!(
            "  WARNING cross-observation property={} sig={} {}",
            v.prop, v.sig, v.what
        );
    }
    for (sig, text, n) in &known_seen {
        println!(
            "KNOWN-FINDING: property={} {} (signature {}, seen {} times)",
            meta.prop, text, sig, n
        );
    }

    if !real.is_empty() {
        let dir = root.join("replays");
        let _ = fs::create_dir_all(&dir);
        for (i, v) in real.iter().enumerate().take(10) {
            let path = dir.join(format!("{}-{}-{}.json", meta.prop, meta.seed, i));
            let _ = fs::write(&path, violation_json(v).to_string() + "\n");
            println!("  violation: [{}] {}", v.sig, v.what);
            println!("VIOLATION property={} replay={}", meta.prop, path.display());
        }
        return EXIT_VIOLATION;
    }
    if !report.inconclusive.is_empty() {
        for r in report.inconclusive.iter().take(10) {
            println!("INCONCLUSIVE property={} {}", meta.prop, r);
        }
        return EXIT_INCONCLUSIVE;
    }
    EXIT_OK
}
