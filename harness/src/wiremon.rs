//! Always-on wire monitors, cheap enough to run in every simulated scenario whatever property the
//! scenario was built for: datagram size (C17) and transaction ids (C19).

use crate::json::{hex, J};
use crate::refcodec::{Body, Id, Krpc, Query};
use crate::runner::Report;
use crate::simnet::{Ev, Micros, Net, Wire};
use btdht::verif::{Event, EventKind};
use std::collections::{HashMap, HashSet};
use std::net::SocketAddr;

pub const MAX_DATAGRAM: usize = 1500;

/// Size monitor. Returns the number of datagrams looked at.
pub fn check_sizes(report: &mut Report, log: &[Wire], nodes: &[SocketAddr], info: &J) -> u64 {
    let mut seen = 0;
    for w in log {
        if !(w.from_socket && matches!(w.ev, Ev::Send | Ev::SendFail) && nodes.contains(&w.src)) {
            continue;
        }
        seen += 1;
        report.maxi("largest_datagram_emitted", w.data.len() as u64);
        if w.data.len() <= MAX_DATAGRAM {
            continue;
        }
        // Classify: the known finding is a get_peers reply that is oversize only because of its
        // uncapped `values` list.
        let mut sig = "oversize-other".to_owned();
        let mut what = "datagram".to_owned();
        if let Ok(k) = Krpc::parse(&w.data) {
            // the query this reply answers: the latest datagram delivered to the node from the
            // reply's destination with the same transaction id
            let answered: Option<String> = log
                .iter()
                .filter(|d| d.ev == Ev::Deliver && d.dst == w.src && d.src == w.dst && d.t <= w.t)
                .rev()
                .filter_map(|d| Krpc::parse(&d.data).ok())
                .find(|q| q.is_query() && q.t == k.t)
                .and_then(|q| q.method().map(|m| m.to_owned()));
            match &k.body {
                Body::Reply(r) if !r.values.is_empty() && answered.as_deref().map(|m| m != "get_peers").unwrap_or(false) => {
                    // values in an answer to something that is not a get_peers query: never the known finding
                    what = format!("reply to a {} query carrying {} values", answered.as_deref().unwrap_or("?"), r.values.len());
                    sig = "oversize-reply".to_owned();
                }
                Body::Reply(r) if !r.values.is_empty() => {
                    let entry = |v: &SocketAddr| if v.is_ipv4() { 8 } else { 21 };
                    let values_bytes: usize = r.values.iter().map(entry).sum::<usize>();
                    let distinct: HashSet<&SocketAddr> = r.values.iter().collect();
                    let distinct_bytes: usize = distinct.iter().map(|v| entry(v)).sum::<usize>();
                    what = format!("get_peers reply with {} values ({} distinct)", r.values.len(), distinct.len());
                    if w.data.len() - values_bytes > MAX_DATAGRAM {
                        sig = "oversize-reply-even-without-values".to_owned();
                    } else if w.data.len() - (values_bytes - distinct_bytes) <= MAX_DATAGRAM {
                        // the known finding is about many stored peers; a reply that would fit if
                        // every peer were listed once is oversize for another reason
                        sig = "oversize-reply-repeated-values".to_owned();
                    } else {
                        sig = "C17-values-uncapped".to_owned();
                    }
                }
                Body::Reply(r) => {
                    what = format!("reply with {}+{} nodes", r.nodes.len(), r.nodes6.len());
                    sig = "oversize-reply".to_owned();
                }
                Body::Query { .. } => {
                    what = format!("{} query", k.method().unwrap_or("?"));
                    sig = "oversize-query".to_owned();
                }
                Body::Error { .. } => {
                    what = "error message".to_owned();
                    sig = "oversize-error".to_owned();
                }
            }
        }
        report.violation(
            "C17",
            sig,
            format!(
                "node {} emitted a {}-byte {what} to {} (limit {MAX_DATAGRAM})",
                w.src,
                w.data.len(),
                w.dst
            ),
            info.clone()
                .with("len", w.data.len())
                .with("datagram_prefix_hex", hex(&w.data[..w.data.len().min(200)])),
        );
    }
    seen
}

fn prefix_of(tid: &[u8]) -> u64 {
    let mut v = 0u64;
    for b in &tid[..5] {
        v = v << 8 | *b as u64;
    }
    v
}

/// Transaction-id monitor over the wire log and the hook event log.
pub fn check_tids(
    report: &mut Report,
    net: &Net,
    log: &[Wire],
    events: &[Event],
    nodes: &[SocketAddr],
    info: &J,
) -> u64 {
    let mut seen = 0u64;
    // node id of each node address, learned from its own queries
    let mut id_of: HashMap<SocketAddr, Id> = HashMap::new();
    // (node, tid) -> [(dst, data)]
    let mut uses: HashMap<(SocketAddr, Vec<u8>), Vec<(SocketAddr, std::sync::Arc<Vec<u8>>)>> = HashMap::new();
    struct Q {
        t: Micros,
        node: SocketAddr,
        prefix: u64,
        lookup_target: Option<Id>,
    }
    let mut queries: Vec<Q> = Vec::new();

    for w in log {
        if !(w.from_socket && matches!(w.ev, Ev::Send | Ev::SendFail) && nodes.contains(&w.src)) {
            continue;
        }
        let Ok(k) = Krpc::parse(&w.data) else { continue };
        let Body::Query { id, q } = &k.body else { continue };
        seen += 1;
        id_of.entry(w.src).or_insert(*id);
        if k.t.len() != 8 {
            report.violation(
                "C19",
                "tid-length",
                format!("node {} sent a query with a {}-byte transaction id", w.src, k.t.len()),
                info.clone().with("datagram_hex", hex(&w.data)),
            );
            continue;
        }
        uses.entry((w.src, k.t.clone())).or_default().push((w.dst, w.data.clone()));
        queries.push(Q {
            t: w.t,
            node: w.src,
            prefix: prefix_of(&k.t),
            lookup_target: match q {
                Query::GetPeers { info_hash, .. } | Query::AnnouncePeer { info_hash, .. } => Some(*info_hash),
                _ => None,
            },
        });
    }

    for ((node, tid), list) in &uses {
        if list.len() < 2 {
            continue;
        }
        report.count("tids_shared_by_design_first_bootstrap_round");
        let mut dsts = HashSet::new();
        let identical = list.iter().all(|(_, d)| **d == *list[0].1);
        let distinct_dst = list.iter().all(|(dst, _)| dsts.insert(*dst));
        let is_bootstrap_round = Krpc::parse(&list[0].1)
            .map(|k| k.method() == Some("find_node"))
            .unwrap_or(false);
        if !(identical && distinct_dst && is_bootstrap_round) {
            report.violation(
                "C19",
                if !distinct_dst { "tid-reused-same-address" } else { "tid-reused" },
                format!(
                    "node {node} used transaction id {} for {} queries ({}identical, {}distinct destinations)",
                    hex(tid),
                    list.len(),
                    if identical { "" } else { "not " },
                    if distinct_dst { "" } else { "not " }
                ),
                info.clone().with("tid", hex(tid)),
            );
        }
    }

    // Activities from the hook log.
    #[derive(Default)]
    struct Acts {
        refresh: Option<u64>,
        bootstrap: Option<u64>,
        // action -> (info_hash, start, finish)
        lookups: Vec<(u64, Id, Micros, Option<Micros>)>,
    }
    let mut acts: HashMap<Id, Acts> = HashMap::new();
    for e in events {
        let node: Id = e.node.into();
        let t = net.micros_at(e.at);
        let a = acts.entry(node).or_default();
        match &e.kind {
            EventKind::NodeCreated { refresh, bootstrap } => {
                if refresh == bootstrap {
                    report.violation(
                        "C19",
                        "prefix-shared",
                        format!("refresh and bootstrap of node {} share action id {refresh}", hex(&node)),
                        info.clone(),
                    );
                }
                a.refresh = Some(*refresh);
                a.bootstrap = Some(*bootstrap);
            }
            EventKind::LookupStarted { info_hash, action, .. } => {
                let live_clash = a
                    .lookups
                    .iter()
                    .any(|(act, _, _, fin)| act == action && fin.is_none());
                if live_clash || Some(*action) == a.refresh || Some(*action) == a.bootstrap {
                    report.violation(
                        "C19",
                        "prefix-shared",
                        format!(
                            "a search of node {} got action id {action}, which another live activity is using",
                            hex(&node)
                        ),
                        info.clone(),
                    );
                }
                a.lookups.push((*action, (*info_hash).into(), t, None));
                report.count("activities_checked_for_prefix_sharing");
            }
            EventKind::LookupFinished { action } => {
                if let Some(l) = a
                    .lookups
                    .iter_mut()
                    .rev()
                    .find(|(act, _, _, fin)| act == action && fin.is_none())
                {
                    l.3 = Some(t);
                }
            }
            _ => {}
        }
    }
    if !events.is_empty() {
        for q in &queries {
            let Some(id) = id_of.get(&q.node) else { continue };
            let Some(a) = acts.get(id) else { continue };
            if a.refresh.is_none() {
                continue; // node created before the event log was last drained
            }
            let ok = match q.lookup_target {
                None => Some(q.prefix) == a.refresh || Some(q.prefix) == a.bootstrap,
                Some(target) => a.lookups.iter().any(|(act, ih, start, fin)| {
                    *act == q.prefix && *ih == target && q.t >= *start && fin.map(|f| q.t <= f).unwrap_or(true)
                }),
            };
            report.count("queries_attributed_to_an_activity");
            if !ok {
                report.violation(
                    "C19",
                    "prefix-not-attributable",
                    format!(
                        "query sent by {} at {} us carries activity prefix {} which does not belong to the live activity that sends this kind of query",
                        q.node, q.t, q.prefix
                    ),
                    info.clone(),
                );
            }
        }
    }
    seen
}

/// Run the always-on monitors over the whole wire log of `net`; returns the hook events taken.
pub fn always_on(report: &mut Report, net: &Net, nodes: &[SocketAddr], info: &J) -> Vec<Event> {
    let log = net.log();
    let events = btdht::verif::take_events();
    let n = check_sizes(report, &log, nodes, info);
    report.add("datagrams_size_checked", n);
    let q = check_tids(report, net, &log, &events, nodes, info);
    report.add("queries_tid_checked", q);
    let (sends, delivers, _) = net.counters();
    report.add("datagrams_sent", sends);
    report.add("datagrams_delivered", delivers);
    report.add("virtual_seconds_simulated", net.now() / 1_000_000);
    events
}
