//! Node-level contact timeline: one real node, 1..8 scripted contacts that answer, query and fall
//! silent on a schedule, `load_contacts()` sampled once per virtual second at quiescent instants.
//! Serves C10 (status timing, node level) and C11 (long-run freshness and purging).

use crate::bed::{node_addr, world_addr};
use crate::checks::{replay_info, sseed, Ctx};
use crate::gen;
use crate::json::{hex, J};
use crate::refcodec::{Body, Id, Krpc, Query};
use crate::runner::Report;
use crate::simnet::{run_sim, sleep_us, Ev, Link, Micros, Net, HOUR, MIN, MS, SEC};
use crate::tabledrv::FIFTEEN_MIN;
use crate::wiremon;
use crate::world::{run_search, spawn_node, NodeCfg, WNode, World};
use btdht::verif::EventKind;
use rand::seq::SliceRandom;
use rand::{Rng, SeedableRng};
use rand_chacha::ChaCha8Rng;
use std::collections::{HashMap, HashSet};
use std::net::SocketAddr;
use std::time::Duration;

#[derive(Clone, Copy, Debug, PartialEq, Eq)]
enum Seen {
    Absent,
    Questionable,
    Good,
}

struct ContactPlan {
    id: Id,
    addr: SocketAddr,
    /// Goes completely silent at this time (never, if None).
    silent_at: Option<Micros>,
    /// Sends the node a query every so often (0 = never).
    query_every: Micros,
    /// From the moment it goes silent the node's `send_to` towards it fails with an error
    /// (address became unroutable / firewalled) instead of the datagram vanishing.
    unsendable: bool,
}

const EPS: Micros = 2 * SEC;

pub fn scenario(ctx: &Ctx, idx: u64, check: &'static str, stream: &'static str) -> Report {
    let ctx = *ctx;
    run_sim(move || async move {
        let mut report = Report::default();
        let seed = sseed(&ctx, stream, idx);
        let mut rng = ChaCha8Rng::seed_from_u64(seed);
        let info = replay_info(check, stream, &ctx, idx);
        let long_run = check == "C11";
        let net = Net::new(seed);
        let v6 = rng.gen_bool(0.3);
        let addr = node_addr(v6, 1);
        let id = gen::rand_id(&mut rng);
        let serving = rng.gen_bool(0.6);

        let hours: u64 = if long_run {
            ctx.tier.pick(rng.gen_range(2..=3), rng.gen_range(2..=12))
        } else {
            ctx.tier.pick(1, rng.gen_range(1..=2))
        };
        let total = hours * HOUR;
        let n = rng.gen_range(1..=8usize);
        let all_contacts_start = rng.gen_bool(0.5);
        let mut plans: Vec<ContactPlan> = Vec::new();
        // the partition in which every contact goes silent is drawn on purpose in a fifth of the
        // long runs (it is the only one in which the node ends up with nobody to talk to)
        let p_silent = if long_run && rng.gen_bool(0.2) { 1.0 } else { 0.45 };
        for i in 0..n {
            let silent_at = if rng.gen_bool(p_silent) {
                Some(match rng.gen_range(0..4) {
                    0 => rng.gen_range(0..MIN),
                    1 => rng.gen_range(0..20 * MIN),
                    _ => rng.gen_range(0..total.saturating_sub(30 * MIN).max(MIN)),
                })
            } else {
                None
            };
            plans.push(ContactPlan {
                id: gen::rand_id(&mut rng),
                addr: world_addr(v6, i as u32),
                silent_at,
                query_every: if !long_run && rng.gen_bool(0.5) {
                    rng.gen_range(2 * MIN..25 * MIN)
                } else {
                    0
                },
                unsendable: silent_at.is_some() && rng.gen_bool(0.3),
            });
        }
        // At least one contact must answer at the start, otherwise nothing ever happens. In a quarter
        // of the runs where every contact was drawn silent the partition stays all-silent (the node is
        // left with nobody to talk to: bootstrap retries in vain, only the refresh ages the table);
        // the start contact then goes silent last and not before the second minute.
        if plans.iter().all(|p| p.silent_at.is_some()) {
            if long_run && (p_silent == 1.0 || rng.gen_bool(0.5)) {
                let latest = plans.iter().map(|p| p.silent_at.unwrap()).max().unwrap().max(rng.gen_range(2 * MIN..40 * MIN));
                plans[0].silent_at = Some(latest.min(total.saturating_sub(30 * MIN)));
                report.count("c11_runs_where_every_contact_goes_silent");
            } else {
                plans[0].silent_at = None;
                plans[0].unsendable = false;
            }
        }
        plans.sort_by_key(|p| (p.silent_at.is_some(), std::cmp::Reverse(p.silent_at)));
        // Id geometry (own generator, so that the other draws of the run stay as they were): in a
        // quarter of the long runs the contacts sit in deep buckets of the node's table, down to
        // the very last one (an id that differs from the node's in its last bit only).
        if long_run {
            use rand::SeedableRng;
            let mut grng = ChaCha8Rng::seed_from_u64(seed ^ 0x9e0_b159);
            if grng.gen_bool(0.25) {
                report.count("c11_runs_with_contacts_in_deep_buckets");
                let mut used: Vec<usize> = Vec::new();
                for p in plans.iter_mut() {
                    let prefix = match grng.gen_range(0..4) {
                        0 => 159,
                        1 => grng.gen_range(150..160usize),
                        _ => grng.gen_range(0..160usize),
                    };
                    if prefix >= 155 && used.contains(&prefix) {
                        continue;
                    }
                    used.push(prefix);
                    p.id = gen::id_with_prefix(&mut grng, &id, prefix);
                }
            }
        }
        // A peer that goes silent may come back at another port under the same id (restart, NAT
        // rebinding): the successor answers from the moment the old address falls silent. The old
        // address is a silent contact like any other and must be purged on schedule.
        let mut successors: Vec<(Id, SocketAddr, Micros)> = Vec::new();
        for (i, p) in plans.iter().enumerate() {
            if let Some(t) = p.silent_at {
                if n <= 6 && t > 0 && rng.gen_bool(0.3) && successors.len() < 2 {
                    let mut a = p.addr;
                    a.set_port(p.addr.port() + 1000 + i as u16);
                    successors.push((p.id, a, t));
                }
            }
        }

        // Nodes the node under test first hears of in the middle of a search (named in get_peers
        // answers only) and that never answer anything: the search queries them in the very step
        // that introduces them. Only when searches run and the network stays small enough for no
        // bucket to fill.
        let search_only: Vec<(Id, SocketAddr)> = if n <= 6 && rng.gen_bool(0.5) {
            (0..rng.gen_range(1..=2u32)).map(|i| (gen::rand_id(&mut rng), world_addr(v6, 100 + i))).collect()
        } else {
            Vec::new()
        };
        let nodes: Vec<WNode> = plans
            .iter()
            .map(|p| {
                let mut w = WNode::new(p.id, p.addr);
                if let Some(t) = p.silent_at {
                    w.silent_from = t;
                }
                w
            })
            .collect();
        let mut nodes = nodes;
        for (sid, saddr, from) in &successors {
            let mut w = WNode::new(*sid, *saddr);
            w.silent_from = 0;
            w.silent_until = *from;
            nodes.push(w);
            report.count("peers_that_move_to_another_port_keeping_their_id");
        }
        let mut world = World::new(nodes);
        world.keep_served = false;
        world.omit_silent = rng.gen_bool(0.5);
        world.search_only_names = search_only.clone();
        for (gid, gaddr) in &search_only {
            plans.push(ContactPlan { id: *gid, addr: *gaddr, silent_at: Some(0), query_every: 0, unsendable: false });
        }
        let owned: HashSet<SocketAddr> = plans.iter().map(|p| p.addr).chain(successors.iter().map(|(_, a, _)| *a)).collect();
        net.add_actor(move |a| owned.contains(a), world);
        let max_lat = *[10 * MS, 100 * MS, 240 * MS].choose(&mut rng).unwrap();
        {
            let mut link = Link::uniform(MS, max_lat);
            if !long_run {
                // the node's own sends fail now and then (C10 node level only; C11's premise is a
                // loss-free network)
                link.fail_p = *[0.0, 0.0, 0.1, 0.4].choose(&mut rng).unwrap();
            }
            let unsendable: Vec<(SocketAddr, Micros)> = plans.iter().filter(|p| p.unsendable).filter_map(|p| p.silent_at.map(|t| (p.addr, t))).collect();
            report.add("contacts_unsendable_once_silent", unsendable.len() as u64);
            net.set_fault(Box::new(move |rng, meta| {
                if meta.from_socket && unsendable.iter().any(|(a, from)| *a == meta.dst && meta.now >= *from) {
                    crate::simnet::Fate::failed()
                } else {
                    link.decide(rng, meta.from_socket)
                }
            }));
        }

        let mut cfg = NodeCfg::new(addr);
        cfg.id = Some(id);
        cfg.read_only = !serving;
        cfg.nodes = if all_contacts_start {
            plans.iter().map(|p| p.addr).collect()
        } else {
            vec![plans[0].addr]
        };
        net.set_send_yield(*[0.0, 0.0, 0.3, 1.0].choose(&mut rng).unwrap());
        let dht = spawn_node(&net, &cfg);
        if rng.gen_bool(0.3) {
            crate::world::api_hammer(&net, &dht, addr, seed, 0.05, 50_000);
        }
        report.evaluations += 1;
        report.distinct(format!(
            "contacts{n}/silent{}/start-{}/serving{serving}/lat{}/{}h/omit{}",
            plans.iter().filter(|p| p.silent_at.is_some()).count(),
            if all_contacts_start { "all" } else { "single" },
            max_lat / MS,
            hours,
            0
        ));

        // contacts that query the node
        for p in plans.iter().filter(|p| p.query_every > 0) {
            let (net2, from, every, pid, silent_at) = (net.clone(), p.addr, p.query_every, p.id, p.silent_at);
            let mut qrng = ChaCha8Rng::seed_from_u64(seed ^ from.port() as u64);
            tokio::spawn(async move {
                let mut n = 0u32;
                loop {
                    sleep_us(qrng.gen_range(every / 2..every)).await;
                    if let Some(s) = silent_at {
                        if net2.now() >= s {
                            break;
                        }
                    }
                    n += 1;
                    let q = if qrng.gen_bool(0.5) {
                        Query::Ping
                    } else {
                        Query::FindNode {
                            target: pid,
                            want: None,
                        }
                    };
                    net2.send_from(from, addr, Krpc::query(n.to_be_bytes(), pid, q).encode());
                }
            });
        }
        for (sid, saddr, from) in successors.clone() {
            let net2 = net.clone();
            let mut qrng = ChaCha8Rng::seed_from_u64(seed ^ saddr.port() as u64 ^ 0x5acc);
            tokio::spawn(async move {
                sleep_us(from).await;
                let mut k = 0u32;
                loop {
                    sleep_us(qrng.gen_range(20 * SEC..4 * MIN)).await;
                    k += 1;
                    net2.send_from(saddr, addr, Krpc::query(k.to_be_bytes(), sid, Query::Ping).encode());
                }
            });
        }
        // occasional searches (C11: "with and without interleaved searches")
        let with_searches = rng.gen_bool(0.4);
        if with_searches {
            let (net2, dht2) = (net.clone(), dht.clone());
            let mut srng = ChaCha8Rng::seed_from_u64(seed ^ 0x5ea7c4);
            tokio::spawn(async move {
                loop {
                    sleep_us(srng.gen_range(MIN..40 * MIN)).await;
                    // one search, or a burst of overlapping (announcing) searches
                    let burst = if srng.gen_bool(0.4) { srng.gen_range(2..=4) } else { 1 };
                    let mut running = Vec::new();
                    for _ in 0..burst {
                        let ih = gen::rand_id(&mut srng);
                        let announce = burst > 1 || srng.gen_bool(0.5);
                        let (net3, dht3) = (net2.clone(), dht2.clone());
                        running.push(tokio::spawn(async move {
                            let _ = run_search(&net3, &dht3, ih, announce, Duration::from_secs(600)).await;
                        }));
                        sleep_us(srng.gen_range(0..300 * MS)).await;
                    }
                    for r in running {
                        let _ = r.await;
                    }
                }
            });
        }

        // ---- sample once per virtual second
        let mut samples: Vec<(Micros, Vec<Option<Seen>>)> = Vec::new();
        let probe_src = if v6 { crate::simnet::v6(7, 7, 7777) } else { crate::simnet::v4(77, 7, 7, 7, 7777) };
        let mut probe_listed: Vec<(Micros, HashSet<SocketAddr>)> = Vec::new();
        let mut t = 0;
        let mut probe_n = 0u32;
        while t < total {
            sleep_us(SEC).await;
            t = net.now();
            let Some(Ok((good, quest))) = crate::world::within(Duration::from_secs(1), dht.load_contacts()).await else {
                report.cross("C15", "api-dead", format!("load_contacts() does not complete at {} s", t / SEC), info.clone());
                break;
            };
            let row: Vec<Option<Seen>> = plans
                .iter()
                .map(|p| {
                    if net.inflight(&p.addr) > 0 {
                        None // a datagram from / to this contact is in flight: transient state
                    } else if good.contains(&p.addr) {
                        Some(Seen::Good)
                    } else if quest.contains(&p.addr) {
                        Some(Seen::Questionable)
                    } else {
                        Some(Seen::Absent)
                    }
                })
                .collect();
            samples.push((t, row));
            // find_node probe from an unknown sender every 3 virtual minutes (serving nodes only)
            if serving && (t / SEC) % 180 == 0 {
                probe_n += 1;
                let target = if probe_n % 2 == 0 { id } else { gen::rand_id(&mut rng) };
                let mark = net.log_len();
                let q = Krpc::query(
                    probe_n.to_be_bytes(),
                    gen::rand_id(&mut rng),
                    Query::FindNode { target, want: None },
                );
                net.send_from_after(probe_src, addr, q.encode(), MS);
                sleep_us(5 * MS).await;
                for w in net.log_since(mark) {
                    if w.ev == Ev::Send && w.src == addr && w.dst == probe_src {
                        if let Ok(k) = Krpc::parse(&w.data) {
                            if let Some(r) = k.as_reply() {
                                let listed: HashSet<SocketAddr> =
                                    r.nodes.iter().chain(r.nodes6.iter()).map(|(_, a)| *a).collect();
                                probe_listed.push((w.t, listed));
                            }
                        }
                    }
                }
            }
        }

        // ---- per-contact event lists from the wire
        let log = net.log();
        let events = wiremon::always_on(&mut report, &net, &[addr], &info);
        let mut refresh_prefix = None;
        let mut bootstrap_prefix = None;
        for e in &events {
            if let EventKind::NodeCreated { refresh, bootstrap } = e.kind {
                refresh_prefix = Some(refresh);
                bootstrap_prefix = Some(bootstrap);
            }
        }
        let prefix_of = |tid: &[u8]| -> Option<u64> {
            if tid.len() != 8 {
                return None;
            }
            Some(tid[..5].iter().fold(0u64, |a, b| a << 8 | *b as u64))
        };

        for (ci, p) in plans.iter().enumerate() {
            // datagrams from the contact delivered to the node (responses; queries only count for a
            // serving node)
            let mut from_c: Vec<Micros> = Vec::new();
            // surely accepted answers
            let mut accepted: Vec<Micros> = Vec::new();
            // queries from the contact delivered to a serving node
            let mut queries_from_c: Vec<Micros> = Vec::new();
            // queries the node sent to the contact: (t, tid, target)
            let mut to_c: Vec<(Micros, Vec<u8>, Option<Id>)> = Vec::new();
            // search queries (get_peers / announce_peer) the node sent to the contact
            let mut search_to_c: Vec<Micros> = Vec::new();
            // times at which some response delivered to the node named this contact
            let mut mentions: Vec<Micros> = Vec::new();
            for w in &log {
                if w.ev == Ev::Send && w.src == addr && w.dst == p.addr {
                    if let Ok(k) = Krpc::parse(&w.data) {
                        if let Body::Query { q, .. } = &k.body {
                            let target = match q {
                                Query::FindNode { target, .. } => Some(*target),
                                _ => None,
                            };
                            if matches!(q, Query::GetPeers { .. } | Query::AnnouncePeer { .. }) {
                                search_to_c.push(w.t);
                            }
                            to_c.push((w.t, k.t.clone(), target));
                        }
                    }
                } else if w.ev == Ev::Deliver && w.dst == addr {
                    let Ok(k) = Krpc::parse(&w.data) else { continue };
                    if w.src == p.addr {
                        match &k.body {
                            Body::Reply(_) => {
                                from_c.push(w.t);
                                // surely accepted: answer to a refresh query (any age) or to a
                                // bucket-round bootstrap query within its 500 ms timeout
                                if let Some((qt, _, target)) = to_c.iter().rev().find(|(_, tid, _)| *tid == k.t) {
                                    let pre = prefix_of(&k.t);
                                    let sure = (pre.is_some() && pre == refresh_prefix)
                                        || (pre.is_some()
                                            && pre == bootstrap_prefix
                                            && *target != Some(id)
                                            && w.t <= *qt + 450 * MS);
                                    if sure {
                                        accepted.push(w.t);
                                    }
                                }
                            }
                            Body::Query { .. } if serving => {
                                from_c.push(w.t);
                                queries_from_c.push(w.t);
                            }
                            _ => {}
                        }
                    }
                    if let Some(r) = k.as_reply() {
                        if r.nodes.iter().chain(r.nodes6.iter()).any(|(nid, a)| *nid == p.id && *a == p.addr) {
                            mentions.push(w.t);
                        }
                    }
                }
            }

            // A query from a contact that is surely good at that moment (an accepted answer, or an
            // earlier such query, less than 15 minutes before) surely counts: the contact is in the
            // table and not dropped, so it stays good for 15 more minutes - whether or not the reply
            // to that query could be sent.
            {
                let mut sure: Vec<Micros> = accepted.clone();
                sure.sort();
                let mut qs = queries_from_c.clone();
                qs.sort();
                for q in qs {
                    let i = sure.partition_point(|x| *x <= q);
                    if i > 0 && q + EPS < sure[i - 1] + FIFTEEN_MIN {
                        sure.insert(i, q);
                        report.count("node_queries_from_a_surely_good_contact");
                    }
                }
                accepted = sure;
            }
            // --- C10 must-not-be-good / must-be-good / dropped, C11 intervals
            let last_before = |v: &Vec<Micros>, t: Micros| -> Option<Micros> {
                let i = v.partition_point(|x| *x <= t);
                if i == 0 {
                    None
                } else {
                    Some(v[i - 1])
                }
            };
            // state machine for "two queries sent while not good"
            let mut drop_events: Vec<(Micros, bool)> = Vec::new(); // (time, dropped=true / revived=false)
            {
                let mut count = 0;
                // Datagrams delivered to the node at an instant come before the queries it sends
                // in reaction at the same instant: kinds sort as 0 = from the contact,
                // 1 = mention by another node, 2 = query sent to the contact.
                let mut timeline: Vec<(Micros, u8)> = Vec::new();
                timeline.extend(from_c.iter().map(|t| (*t, 0u8)));
                timeline.extend(mentions.iter().map(|t| (*t, 1u8)));
                // Only queries the node certainly books against the contact: refresh and bucket-round
                // find_node (target != own id). The initial bootstrap round and search queries to
                // nodes that are not in the table are not booked.
                timeline.extend(
                    to_c.iter()
                        .filter(|(_, _, target)| matches!(target, Some(tg) if *tg != id))
                        .map(|(t, _, _)| (*t, 2u8)),
                );
                // Search queries are booked too, but only against a contact that is in the table when
                // they are sent. In these small networks no bucket ever fills, so a contact is in the
                // table from its first mention / answer on (kind 3: judged below with `known`).
                timeline.extend(search_to_c.iter().map(|t| (*t, 3u8)));
                timeline.sort();
                let mut last_from: Option<Micros> = None;
                let mut dropped = false;
                let mut known = false;
                for (t, kind) in timeline {
                    if kind == 3 && !known {
                        continue;
                    }
                    match kind {
                        0 => {
                            known = true;
                            last_from = Some(t);
                            count = 0;
                            if dropped {
                                dropped = false;
                                drop_events.push((t, false));
                            }
                        }
                        1 => {
                            known = true;
                            // A mention re-introduces a dropped contact with a clean slate. The node
                            // may consider the contact dropped earlier than this conservative count
                            // does, so the count restarts on every mention.
                            count = 0;
                            if dropped {
                                dropped = false;
                                drop_events.push((t, false));
                            }
                        }
                        _ => {
                            // hearsay-only contacts (never heard from) are not good from the start
                            let not_good = last_from.map(|l| t >= l + FIFTEEN_MIN + EPS).unwrap_or(true);
                            if not_good && !dropped {
                                count += 1;
                                if count >= 2 {
                                    dropped = true;
                                    drop_events.push((t, true));
                                }
                            }
                        }
                    }
                }
            }
            let dropped_at = |t: Micros| -> Option<Micros> {
                // Some(since) if the contact is surely dropped during [since + EPS, t]
                let i = drop_events.partition_point(|(x, _)| *x <= t);
                match drop_events.get(i.wrapping_sub(1)) {
                    Some((since, true)) if i > 0 => Some(*since),
                    _ => None,
                }
            };

            let mut admitted = false;
            let mut non_good_since: Option<Micros> = None;
            let responsive = p.silent_at.is_none();
            let last_answer_of_silent = p.silent_at.and_then(|_| from_c.last().copied());
            for (t, row) in &samples {
                let Some(seen) = row[ci] else { continue };
                report.count("node_samples_checked");
                // C10: reported good only if heard from within the last 15 minutes
                if seen == Seen::Good {
                    report.count("node_must_not_be_good_checks");
                    let heard = last_before(&from_c, *t);
                    if !matches!(heard, Some(h) if *t < h + FIFTEEN_MIN + EPS) {
                        report.violation(
                            "C10",
                            "good-without-recent-contact",
                            format!(
                                "contact {} reported good at {} s although the last datagram from it was delivered at {:?} s (more than 15 min earlier / never)",
                                p.addr,
                                t / SEC,
                                heard.map(|h| h / SEC)
                            ),
                            info.clone().with("contact", p.addr.to_string()),
                        );
                        break;
                    }
                }
                // C10: an accepted answer makes it good immediately, for 15 minutes
                if let Some(a) = last_before(&accepted, *t) {
                    if *t > a + EPS && *t + EPS < a + FIFTEEN_MIN {
                        report.count("node_must_be_good_checks");
                        if seen != Seen::Good {
                            report.violation(
                                "C10",
                                "not-good-after-answer",
                                format!(
                                    "contact {} answered a refresh/bootstrap query (or, being good, queried the node) at {} s but is reported {:?} at {} s",
                                    p.addr,
                                    a / SEC,
                                    seen,
                                    t / SEC
                                ),
                                info.clone().with("contact", p.addr.to_string()),
                            );
                            break;
                        }
                    }
                }
                // C10: not good + two unanswered queries => no longer reported
                if let Some(since) = dropped_at(*t) {
                    if *t > since + EPS {
                        report.count("node_dropped_contact_checks");
                        if seen != Seen::Absent {
                            report.violation(
                                "C10",
                                "dropped-contact-still-reported",
                                format!(
                                    "contact {} was sent two queries while not good (second at {} s), answered neither and was not named since, but is reported {:?} at {} s; queries to it {:?} ms, datagrams from it {:?} ms, mentions {:?} ms",
                                    p.addr,
                                    since / SEC,
                                    seen,
                                    t / SEC,
                                    to_c.iter().filter(|(qt, _, _)| qt + 100 * SEC > *t && qt <= t).map(|(qt, _, tg)| (qt / MS, tg.map(|x| x != id))).collect::<Vec<_>>(),
                                    from_c.iter().rev().take(3).map(|x| x / MS).collect::<Vec<_>>(),
                                    mentions.iter().filter(|m| *m + 100 * SEC > *t && *m <= t).map(|x| x / MS).collect::<Vec<_>>()
                                ),
                                info.clone().with("contact", p.addr.to_string()),
                            );
                            break;
                        }
                    }
                }
                // C11 (responsive contacts): never lost once admitted; good again within 30 s
                if responsive {
                    if seen != Seen::Absent {
                        admitted = true;
                    }
                    if admitted {
                        report.count("c11_responsive_samples");
                        if seen == Seen::Absent {
                            report.violation(
                                "C11",
                                "responsive-contact-lost",
                                format!("always-answering contact {} is missing from the contacts at {} s ({} contacts, latency < {} ms)", p.addr, t / SEC, n, max_lat / MS),
                                info.clone().with("contact", p.addr.to_string()),
                            );
                            break;
                        }
                        if seen == Seen::Good {
                            if let Some(s) = non_good_since.take() {
                                report.maxi("c11_longest_non_good_interval_ms", (*t - s) / MS);
                            }
                        } else {
                            let s = *non_good_since.get_or_insert(*t);
                            // admitted by hearsay only: must first be queried; same 30 s budget
                            if *t > s + 30 * SEC + 2 * SEC {
                                report.violation(
                                    "C11",
                                    "responsive-contact-stays-questionable",
                                    format!(
                                        "always-answering contact {} has been reported not good from {} s to {} s (more than 30 s)",
                                        p.addr,
                                        s / SEC,
                                        t / SEC
                                    ),
                                    info.clone().with("contact", p.addr.to_string()),
                                );
                                break;
                            }
                        }
                    }
                }
                // C11 (silent contacts): gone within 20 min of the last answer / 5 min of the last mention
                if let Some(silent) = p.silent_at {
                    let last_answer = last_answer_of_silent.unwrap_or(0);
                    let last_mention = last_before(&mentions, *t).unwrap_or(0);
                    let deadline = (last_answer + 20 * MIN).max(last_mention + 5 * MIN) + EPS;
                    if *t > deadline && *t > silent {
                        report.count("c11_silent_samples_past_deadline");
                        if seen != Seen::Absent {
                            report.violation(
                                "C11",
                                "silent-contact-not-purged",
                                format!(
                                    "contact {} silent since {} s (last answer {:?} s, last named by another node at {} s) is still reported {:?} at {} s",
                                    p.addr,
                                    silent / SEC,
                                    last_answer_of_silent.map(|a| a / SEC),
                                    last_mention / SEC,
                                    seen,
                                    t / SEC
                                ),
                                info.clone().with("contact", p.addr.to_string()),
                            );
                            break;
                        }
                    }
                }
            }
            // C11: find_node answers must not list a silent contact past its deadline
            if let Some(silent) = p.silent_at {
                let last_answer = last_answer_of_silent.unwrap_or(0);
                for (t, listed) in &probe_listed {
                    let last_mention = last_before(&mentions, *t).unwrap_or(0);
                    let deadline = (last_answer + 20 * MIN).max(last_mention + 5 * MIN).max(silent) + EPS;
                    if *t > deadline {
                        report.count("c11_probe_answers_past_deadline");
                        if listed.contains(&p.addr) {
                            report.violation(
                                "C11",
                                "silent-contact-still-offered",
                                format!("find_node answer at {} s still lists contact {} silent since {} s", t / SEC, p.addr, silent / SEC),
                                info.clone().with("contact", p.addr.to_string()),
                            );
                            break;
                        }
                    }
                }
            }
            if responsive && admitted {
                report.count("c11_responsive_contacts_followed");
            }
            if p.silent_at.is_some() {
                report.count("c11_silent_contacts_followed");
            }
        }
        report.add("virtual_hours_simulated", hours);
        if idx < 3 {
            report.sample(
                J::obj()
                    .with("contacts", n)
                    .with("serving", serving)
                    .with("start", if all_contacts_start { "all contacts" } else { "single contact" })
                    .with("virtual_hours", hours)
                    .with("with_searches", with_searches)
                    .with(
                        "plans",
                        plans
                            .iter()
                            .map(|p| {
                                J::obj()
                                    .with("addr", p.addr.to_string())
                                    .with("id", hex(&p.id[..4]))
                                    .with("silent_at_s", p.silent_at.map(|s| J::from(s / SEC)).unwrap_or(J::Null))
                                    .with("queries_node_every_s", p.query_every / SEC)
                            })
                            .collect::<Vec<_>>(),
                    )
                    .with("samples", samples.len()),
            );
        }
        let _ = (HashMap::<u8, u8>::new(), Net::new);
        report
    })
}
