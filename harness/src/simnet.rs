//! Simulated UDP network under tokio's paused (virtual) clock.
//!
//! Real `MainlineDht` instances are attached through `SimSocket` (which implements btdht's public
//! `SocketTrait`); scripted parties are `Actor`s that may own any set of addresses. Every send and
//! every delivery is recorded in the wire log, which is what the monitors read.

use async_trait::async_trait;
use btdht::SocketTrait;
use rand::{Rng, SeedableRng};
use rand_chacha::ChaCha8Rng;
use std::{
    collections::{BTreeSet, HashMap},
    io,
    net::SocketAddr,
    sync::{Arc, Mutex},
    time::Duration,
};
use tokio::sync::mpsc;

/// Microseconds of virtual time since the network was created.
pub type Micros = u64;

pub const MS: Micros = 1_000;
pub const SEC: Micros = 1_000_000;
pub const MIN: Micros = 60 * SEC;
pub const HOUR: Micros = 60 * MIN;

#[derive(Clone, Copy, Debug, PartialEq, Eq)]
pub enum Ev {
    /// `send_to` accepted the datagram (it may still be dropped: see `Drop`).
    Send,
    /// `send_to` returned an error; nothing was sent.
    SendFail,
    /// The network dropped the datagram (logged at send time, after `Send`).
    Drop,
    /// A copy of the datagram reached an endpoint.
    Deliver,
    /// A copy arrived at an address nobody listens on.
    NoEndpoint,
}

#[derive(Clone, Debug)]
pub struct Wire {
    pub t: Micros,
    pub ev: Ev,
    /// Datagram id: the same for the `Send` and all `Deliver`s of (copies of) one datagram.
    pub id: u64,
    pub src: SocketAddr,
    pub dst: SocketAddr,
    pub data: Arc<Vec<u8>>,
    /// True if the sender is a real node's socket (as opposed to an actor or an injection).
    pub from_socket: bool,
}

pub struct Meta<'a> {
    pub now: Micros,
    pub src: SocketAddr,
    pub dst: SocketAddr,
    pub data: &'a [u8],
    pub from_socket: bool,
}

#[derive(Clone, Debug, Default)]
pub struct Fate {
    /// `send_to` fails with an error (only meaningful for real sockets).
    pub fail: bool,
    /// One latency per copy delivered; empty = dropped.
    pub deliveries: Vec<Micros>,
}

impl Fate {
    pub fn after(lat: Micros) -> Fate {
        Fate {
            fail: false,
            deliveries: vec![lat],
        }
    }
    pub fn dropped() -> Fate {
        Fate::default()
    }
    pub fn failed() -> Fate {
        Fate {
            fail: true,
            deliveries: vec![],
        }
    }
}

pub type FaultFn = Box<dyn FnMut(&mut ChaCha8Rng, &Meta) -> Fate + Send>;

/// Simple parametric link model.
#[derive(Clone, Debug)]
pub struct Link {
    pub lat_lo: Micros,
    pub lat_hi: Micros,
    pub drop_p: f64,
    pub dup_p: f64,
    pub fail_p: f64,
}

impl Link {
    pub fn fixed(lat: Micros) -> Link {
        Link {
            lat_lo: lat,
            lat_hi: lat,
            drop_p: 0.0,
            dup_p: 0.0,
            fail_p: 0.0,
        }
    }

    pub fn uniform(lo: Micros, hi: Micros) -> Link {
        Link {
            lat_lo: lo,
            lat_hi: hi,
            drop_p: 0.0,
            dup_p: 0.0,
            fail_p: 0.0,
        }
    }

    pub fn latency(&self, rng: &mut ChaCha8Rng) -> Micros {
        if self.lat_hi > self.lat_lo {
            rng.gen_range(self.lat_lo..self.lat_hi)
        } else {
            self.lat_lo
        }
    }

    pub fn decide(&self, rng: &mut ChaCha8Rng, from_socket: bool) -> Fate {
        if from_socket && self.fail_p > 0.0 && rng.gen_bool(self.fail_p) {
            return Fate::failed();
        }
        if self.drop_p > 0.0 && rng.gen_bool(self.drop_p) {
            return Fate::dropped();
        }
        let mut deliveries = vec![self.latency(rng)];
        if self.dup_p > 0.0 && rng.gen_bool(self.dup_p) {
            // Half of the duplicates arrive back to back (same instant as the original: the usual
            // form of UDP duplication), the others after an independent latency.
            if rng.gen_bool(0.5) {
                deliveries.push(deliveries[0]);
            } else {
                deliveries.push(self.latency(rng));
            }
        }
        Fate {
            fail: false,
            deliveries,
        }
    }

    pub fn into_fn(self) -> FaultFn {
        Box::new(move |rng, meta| self.decide(rng, meta.from_socket))
    }
}

pub trait Actor: Send {
    /// A datagram from `src` arrived at `at` (one of the addresses this actor owns).
    fn on_datagram(&mut self, net: &Net, at: SocketAddr, src: SocketAddr, data: &[u8]);
}

type Matcher = Box<dyn Fn(&SocketAddr) -> bool + Send>;

/// Per-socket bookkeeping for tie-free delivery: no two datagrams reach the socket in the same
/// millisecond tick, and none arrives in a tick in which one of the node's own query / end-game
/// timers may fire (1 ms timer granularity makes same-tick events race in the node's `select!`).
#[derive(Default)]
struct TieState {
    reserved: BTreeSet<u64>,
    forbidden: BTreeSet<u64>,
}

impl TieState {
    fn forbid_around(&mut self, tick: u64) {
        for t in tick.saturating_sub(1)..=tick + 1 {
            self.forbidden.insert(t);
        }
    }
    fn free_tick(&mut self, mut tick: u64) -> u64 {
        while self.reserved.contains(&tick) || self.forbidden.contains(&tick) {
            tick += 1;
        }
        tick
    }
    fn prune(&mut self, now_tick: u64) {
        if self.forbidden.len() + self.reserved.len() > 4096 {
            let keep = now_tick.saturating_sub(2);
            self.forbidden = self.forbidden.split_off(&keep);
            self.reserved = self.reserved.split_off(&keep);
        }
    }
}

/// Timer offsets (ms) after one of the node's own sends at which a timer of the node may fire:
/// bootstrap node timeout, query timeout, initial bootstrap timeout, query timeout + end-game.
const TIMER_OFFSETS_MS: [u64; 4] = [500, 1500, 2500, 3000];

type Observer = Box<dyn FnMut(&Wire) + Send>;

struct Inner {
    /// Called when a datagram is about to be handed to the real socket at the given address (just
    /// before the node can see it): lets a scenario align API calls with network events.
    observers: Vec<(SocketAddr, Arc<Mutex<Observer>>)>,
    /// Probability that a real socket's `send_to` yields to the scheduler before sending (an
    /// existing suspension point of the node: a UDP send may be pending), so that the node's other
    /// task can run in the middle of whatever the sender was doing.
    send_yield_p: f64,
    /// (probability, longest duration): a real socket's `send_to` returns only this long after the
    /// datagram has left (a send that blocks under back-pressure, a sender thread descheduled right
    /// after the system call). The datagram - and with short latencies even the answer to it - is
    /// on its way while the sending task is still suspended in the send.
    send_linger: (f64, Micros),
    tie: HashMap<SocketAddr, TieState>,
    t0: tokio::time::Instant,
    rng: ChaCha8Rng,
    sockets: HashMap<SocketAddr, mpsc::UnboundedSender<(Arc<Vec<u8>>, SocketAddr)>>,
    actors: Vec<(Matcher, Arc<Mutex<dyn Actor>>)>,
    fault: FaultFn,
    log: Vec<Wire>,
    log_enabled: bool,
    next_id: u64,
    inflight: HashMap<SocketAddr, usize>,
    total_inflight: usize,
    // cheap always-on counters (kept even when the log is drained)
    pub sends: u64,
    pub delivers: u64,
    pub max_len_from_socket: usize,
}

#[derive(Clone)]
pub struct Net(Arc<Mutex<Inner>>);

impl Net {
    pub fn new(seed: u64) -> Net {
        Net(Arc::new(Mutex::new(Inner {
            observers: Vec::new(),
            send_yield_p: 0.0,
            send_linger: (0.0, 0),
            tie: HashMap::new(),
            t0: tokio::time::Instant::now(),
            rng: ChaCha8Rng::seed_from_u64(seed ^ 0x6e65_7473_696d),
            sockets: HashMap::new(),
            actors: Vec::new(),
            fault: Link::fixed(10 * MS).into_fn(),
            log: Vec::new(),
            log_enabled: true,
            next_id: 0,
            inflight: HashMap::new(),
            total_inflight: 0,
            sends: 0,
            delivers: 0,
            max_len_from_socket: 0,
        })))
    }

    pub fn now(&self) -> Micros {
        let inner = self.0.lock().unwrap();
        (tokio::time::Instant::now() - inner.t0).as_micros() as Micros
    }

    /// Virtual time of a tokio instant on this network's clock.
    pub fn micros_at(&self, at: tokio::time::Instant) -> Micros {
        let inner = self.0.lock().unwrap();
        at.saturating_duration_since(inner.t0).as_micros() as Micros
    }

    pub fn set_fault(&self, fault: FaultFn) {
        self.0.lock().unwrap().fault = fault;
    }

    pub fn set_link(&self, link: Link) {
        self.set_fault(link.into_fn());
    }

    /// Register an observer of the datagrams delivered to the real socket at `addr`.
    pub fn add_observer(&self, addr: SocketAddr, f: impl FnMut(&Wire) + Send + 'static) {
        self.0
            .lock()
            .unwrap()
            .observers
            .push((addr, Arc::new(Mutex::new(Box::new(f)))));
    }

    /// Make `send_to` of real sockets yield with this probability (injected scheduling point).
    pub fn set_send_yield(&self, p: f64) {
        self.0.lock().unwrap().send_yield_p = p;
    }

    /// Make `send_to` of real sockets return late with probability `p`, by up to `max` (see
    /// `Inner::send_linger`). Not for scenarios whose oracle predicts exact timer instants from the
    /// send instants on the wire (the search beds).
    pub fn set_send_linger(&self, p: f64, max: Micros) {
        self.0.lock().unwrap().send_linger = (p, max);
    }

    fn linger_after_send(&self) -> Micros {
        let mut guard = self.0.lock().unwrap();
        let inner = &mut *guard;
        let (p, max) = inner.send_linger;
        if p > 0.0 && max > 0 && inner.rng.gen_bool(p.min(1.0)) {
            inner.rng.gen_range(0..=max)
        } else {
            0
        }
    }

    fn should_yield_on_send(&self) -> bool {
        let mut guard = self.0.lock().unwrap();
        let inner = &mut *guard;
        inner.send_yield_p > 0.0 && inner.rng.gen_bool(inner.send_yield_p.min(1.0))
    }

    /// Deliver datagrams to the socket at `addr` tie-free (see `TieState`).
    pub fn set_tie_free(&self, addr: SocketAddr) {
        self.0.lock().unwrap().tie.entry(addr).or_default();
    }

    pub fn set_log_enabled(&self, on: bool) {
        self.0.lock().unwrap().log_enabled = on;
    }

    /// Create a socket bound to `addr` for a real node.
    pub fn socket(&self, addr: SocketAddr) -> SimSocket {
        let (tx, rx) = mpsc::unbounded_channel();
        let previous = self.0.lock().unwrap().sockets.insert(addr, tx);
        assert!(previous.is_none(), "address {addr} bound twice");
        SimSocket {
            net: self.clone(),
            addr,
            rx: tokio::sync::Mutex::new(rx),
        }
    }

    pub fn add_actor<A: Actor + 'static>(
        &self,
        matcher: impl Fn(&SocketAddr) -> bool + Send + 'static,
        actor: A,
    ) -> Arc<Mutex<A>> {
        let actor = Arc::new(Mutex::new(actor));
        self.0
            .lock()
            .unwrap()
            .actors
            .push((Box::new(matcher), actor.clone()));
        actor
    }

    pub fn clear_actors(&self) {
        self.0.lock().unwrap().actors.clear();
    }

    /// Send a datagram on behalf of an actor / injector; it goes through the fault model.
    pub fn send_from(&self, src: SocketAddr, dst: SocketAddr, data: Vec<u8>) -> u64 {
        self.send_impl(src, dst, data, false, None).1
    }

    /// Send a datagram that is delivered exactly once after exactly `latency` (bypasses the fault
    /// model).
    pub fn send_from_after(
        &self,
        src: SocketAddr,
        dst: SocketAddr,
        data: Vec<u8>,
        latency: Micros,
    ) -> u64 {
        self.send_impl(src, dst, data, false, Some(Fate::after(latency)))
            .1
    }

    fn send_impl(
        &self,
        src: SocketAddr,
        dst: SocketAddr,
        data: Vec<u8>,
        from_socket: bool,
        forced: Option<Fate>,
    ) -> (bool, u64) {
        let data = Arc::new(data);
        let (fate, id, now) = {
            let mut guard = self.0.lock().unwrap();
            let inner = &mut *guard;
            let now = (tokio::time::Instant::now() - inner.t0).as_micros() as Micros;
            let fate = match forced {
                Some(fate) => fate,
                None => {
                    let meta = Meta {
                        now,
                        src,
                        dst,
                        data: &data,
                        from_socket,
                    };
                    (inner.fault)(&mut inner.rng, &meta)
                }
            };
            let mut fate = fate;
            let now_tick = now / 1000;
            if from_socket && !fate.fail {
                if let Some(tie) = inner.tie.get_mut(&src) {
                    for off in TIMER_OFFSETS_MS {
                        tie.forbid_around(now_tick + off);
                    }
                    tie.prune(now_tick);
                }
            }
            if let Some(tie) = inner.tie.get_mut(&dst) {
                for lat in fate.deliveries.iter_mut() {
                    let want = (now + *lat).div_ceil(1000).max(now_tick + 1);
                    let tick = tie.free_tick(want);
                    tie.reserved.insert(tick);
                    // an end-game started by this delivery ends 1500 ms later
                    tie.forbid_around(tick + 1500);
                    *lat = tick * 1000 - now;
                }
            }
            let id = inner.next_id;
            inner.next_id += 1;

            let mut push = |ev| {
                if inner.log_enabled {
                    inner.log.push(Wire {
                        t: now,
                        ev,
                        id,
                        src,
                        dst,
                        data: data.clone(),
                        from_socket,
                    });
                }
            };

            if fate.fail && from_socket {
                push(Ev::SendFail);
                return (false, id);
            }
            push(Ev::Send);
            if fate.deliveries.is_empty() {
                push(Ev::Drop);
            }
            inner.sends += 1;
            if from_socket {
                inner.max_len_from_socket = inner.max_len_from_socket.max(data.len());
            }
            let copies = fate.deliveries.len();
            if copies > 0 {
                *inner.inflight.entry(src).or_default() += copies;
                *inner.inflight.entry(dst).or_default() += copies;
                inner.total_inflight += copies;
            }
            (fate, id, now)
        };
        let _ = now;

        for latency in fate.deliveries {
            let net = self.clone();
            let data = data.clone();
            tokio::spawn(async move {
                tokio::time::sleep(Duration::from_micros(latency)).await;
                // Tie-free sockets: a send made after this delivery was scheduled may have put a
                // timer into this tick; move on to the next free tick.
                loop {
                    let wait = net.tie_recheck(&dst);
                    if wait == 0 {
                        break;
                    }
                    tokio::time::sleep(Duration::from_micros(wait)).await;
                }
                net.deliver(id, src, dst, data, from_socket);
            });
        }

        (true, id)
    }

    /// 0 if a datagram may be delivered to `dst` right now, else the time to wait.
    fn tie_recheck(&self, dst: &SocketAddr) -> Micros {
        let mut guard = self.0.lock().unwrap();
        let inner = &mut *guard;
        let now = (tokio::time::Instant::now() - inner.t0).as_micros() as Micros;
        let Some(tie) = inner.tie.get_mut(dst) else {
            return 0;
        };
        let tick = now.div_ceil(1000);
        if !tie.forbidden.contains(&tick) {
            return 0;
        }
        tie.reserved.remove(&tick);
        let next = tie.free_tick(tick + 1);
        tie.reserved.insert(next);
        tie.forbid_around(next + 1500);
        next * 1000 - now
    }

    fn deliver(&self, id: u64, src: SocketAddr, dst: SocketAddr, data: Arc<Vec<u8>>, from_socket: bool) {
        enum Target {
            Socket(mpsc::UnboundedSender<(Arc<Vec<u8>>, SocketAddr)>),
            Actor(Arc<Mutex<dyn Actor>>),
            Nobody,
        }

        let target = {
            let mut guard = self.0.lock().unwrap();
            let inner = &mut *guard;
            let now = (tokio::time::Instant::now() - inner.t0).as_micros() as Micros;

            for addr in [src, dst] {
                if let Some(n) = inner.inflight.get_mut(&addr) {
                    *n -= 1;
                    if *n == 0 {
                        inner.inflight.remove(&addr);
                    }
                }
            }
            inner.total_inflight -= 1;

            let target = if let Some(tx) = inner.sockets.get(&dst) {
                Target::Socket(tx.clone())
            } else if let Some((_, actor)) = inner.actors.iter().find(|(m, _)| m(&dst)) {
                Target::Actor(actor.clone())
            } else {
                Target::Nobody
            };

            if inner.log_enabled {
                inner.log.push(Wire {
                    t: now,
                    ev: if matches!(target, Target::Nobody) {
                        Ev::NoEndpoint
                    } else {
                        Ev::Deliver
                    },
                    id,
                    src,
                    dst,
                    data: data.clone(),
                    from_socket,
                });
            }
            inner.delivers += 1;
            target
        };

        match target {
            Target::Socket(tx) => {
                let observers: Vec<Arc<Mutex<Observer>>> = {
                    let inner = self.0.lock().unwrap();
                    inner
                        .observers
                        .iter()
                        .filter(|(a, _)| *a == dst)
                        .map(|(_, o)| o.clone())
                        .collect()
                };
                if !observers.is_empty() {
                    let w = Wire {
                        t: self.now(),
                        ev: Ev::Deliver,
                        id,
                        src,
                        dst,
                        data: data.clone(),
                        from_socket,
                    };
                    for o in observers {
                        (o.lock().unwrap())(&w);
                    }
                }
                let _ = tx.send((data, src));
            }
            Target::Actor(actor) => actor.lock().unwrap().on_datagram(self, dst, src, &data),
            Target::Nobody => {}
        }
    }

    /// Number of datagrams in flight from or to `addr`.
    pub fn inflight(&self, addr: &SocketAddr) -> usize {
        self.0
            .lock()
            .unwrap()
            .inflight
            .get(addr)
            .copied()
            .unwrap_or(0)
    }

    pub fn total_inflight(&self) -> usize {
        self.0.lock().unwrap().total_inflight
    }

    /// Copy of the wire log.
    pub fn log(&self) -> Vec<Wire> {
        self.0.lock().unwrap().log.clone()
    }

    /// Take the wire log recorded so far (the log continues empty).
    pub fn drain_log(&self) -> Vec<Wire> {
        std::mem::take(&mut self.0.lock().unwrap().log)
    }

    pub fn log_len(&self) -> usize {
        self.0.lock().unwrap().log.len()
    }

    /// Entries of the log from index `from` on.
    pub fn log_since(&self, from: usize) -> Vec<Wire> {
        self.0.lock().unwrap().log[from..].to_vec()
    }

    pub fn counters(&self) -> (u64, u64, usize) {
        let inner = self.0.lock().unwrap();
        (inner.sends, inner.delivers, inner.max_len_from_socket)
    }

    pub fn rng_u64(&self) -> u64 {
        self.0.lock().unwrap().rng.gen()
    }
}

/// Let every runnable task run, then advance virtual time by 1 ms.
pub async fn settle() {
    tokio::time::sleep(Duration::from_millis(1)).await;
}

pub async fn sleep_us(us: Micros) {
    tokio::time::sleep(Duration::from_micros(us)).await;
}

pub struct SimSocket {
    net: Net,
    addr: SocketAddr,
    rx: tokio::sync::Mutex<mpsc::UnboundedReceiver<(Arc<Vec<u8>>, SocketAddr)>>,
}

impl Drop for SimSocket {
    fn drop(&mut self) {
        self.net.0.lock().unwrap().sockets.remove(&self.addr);
    }
}

#[async_trait]
impl SocketTrait for SimSocket {
    async fn send_to(&self, buf: &[u8], target: &SocketAddr) -> io::Result<()> {
        if self.net.should_yield_on_send() {
            tokio::task::yield_now().await;
        }
        let (ok, _) = self
            .net
            .send_impl(self.addr, *target, buf.to_vec(), true, None);
        let linger = self.net.linger_after_send();
        if linger > 0 {
            tokio::time::sleep(Duration::from_micros(linger)).await;
        }
        if ok {
            Ok(())
        } else {
            Err(io::Error::other("simulated send failure"))
        }
    }

    async fn recv_from(&self, buf: &mut [u8]) -> io::Result<(usize, SocketAddr)> {
        let mut rx = self.rx.lock().await;
        match rx.recv().await {
            Some((data, src)) => {
                // Truncate like UDP.
                let n = data.len().min(buf.len());
                buf[..n].copy_from_slice(&data[..n]);
                Ok((n, src))
            }
            // Never report an error: the node retries `recv` in a tight loop.
            None => std::future::pending().await,
        }
    }

    fn local_addr(&self) -> io::Result<SocketAddr> {
        Ok(self.addr)
    }
}

// ---------------------------------------------------------------------------------------------

/// Run one simulation on a fresh paused current-thread runtime.
pub fn run_sim<F, Fut, T>(f: F) -> T
where
    F: FnOnce() -> Fut,
    Fut: std::future::Future<Output = T>,
{
    let rt = tokio::runtime::Builder::new_current_thread()
        .enable_time()
        .start_paused(true)
        .build()
        .expect("runtime");
    btdht::verif::reset();
    let out = rt.block_on(f());
    drop(rt);
    btdht::verif::reset();
    out
}

pub fn v4(a: u8, b: u8, c: u8, d: u8, port: u16) -> SocketAddr {
    SocketAddr::new(std::net::Ipv4Addr::new(a, b, c, d).into(), port)
}

pub fn v6(hi: u16, lo: u64, port: u16) -> SocketAddr {
    let segs = [
        0xfd00,
        hi,
        0,
        0,
        (lo >> 48) as u16,
        (lo >> 32) as u16,
        (lo >> 16) as u16,
        lo as u16,
    ];
    SocketAddr::new(
        std::net::Ipv6Addr::new(
            segs[0], segs[1], segs[2], segs[3], segs[4], segs[5], segs[6], segs[7],
        )
        .into(),
        port,
    )
}
