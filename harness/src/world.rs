//! Scripted DHT world: one actor impersonating any number of nodes, answering from an omniscient
//! description; plus helpers to start real nodes on the simulated network.

use crate::refcodec::{xor, Body, Id, Krpc, Query, Reply};
use crate::simnet::{Actor, Micros, Net};
use btdht::{InfoHash, MainlineDht};
use futures_util::StreamExt;
use std::collections::HashMap;
use std::net::{IpAddr, Ipv4Addr, Ipv6Addr, SocketAddr};
use std::sync::{Arc, Mutex};
use std::time::Duration;

#[derive(Clone, Copy, Debug, PartialEq, Eq)]
pub enum Mode {
    Normal,
    /// Answers every query with a KRPC error.
    Errors,
    /// Answers every query with undecodable bytes.
    Garbage,
}

#[derive(Clone, Debug)]
pub struct WNode {
    pub id: Id,
    pub addr: SocketAddr,
    /// Number of peer values this node puts into each get_peers reply.
    pub peers: usize,
    /// The node does not react to anything in [silent_from, silent_until).
    pub silent_from: Micros,
    pub silent_until: Micros,
    pub mode: Mode,
}

impl WNode {
    pub fn new(id: Id, addr: SocketAddr) -> WNode {
        WNode {
            id,
            addr,
            peers: 0,
            silent_from: Micros::MAX,
            silent_until: Micros::MAX,
            mode: Mode::Normal,
        }
    }
    pub fn is_silent(&self, now: Micros) -> bool {
        now >= self.silent_from && now < self.silent_until
    }
}

#[derive(Clone, Debug)]
pub struct Served {
    pub t: Micros,
    pub node: usize,
    pub from: SocketAddr,
    pub tid: Vec<u8>,
    pub method: &'static str,
    pub target: Option<Id>,
    /// Sequence number of the reply (encoded in the tagged values), None if not answered.
    pub seq: Option<u32>,
    /// Wire id of the reply datagram.
    pub reply_wire_id: Option<u64>,
    pub values: Vec<SocketAddr>,
    pub token: Option<Vec<u8>>,
    pub nodes: Vec<(Id, SocketAddr)>,
    /// For announce_peer: (info_hash, port option, token presented).
    pub announce: Option<(Id, Option<u16>, Vec<u8>)>,
    pub querier_id: Id,
}

pub struct World {
    pub nodes: Vec<WNode>,
    pub index: HashMap<SocketAddr, usize>,
    pub served: Vec<Served>,
    pub seq: u32,
    /// Nodes listed per reply.
    pub k: usize,
    /// Whether a node may list itself among the closest.
    pub include_self: bool,
    /// Values depend only on (node, index) instead of being unique per reply.
    pub stable_values: bool,
    /// Some values are listed more than once in a reply, adjacent and apart (the stream must yield
    /// every occurrence).
    pub repeat_values: bool,
    /// Extra delay added to every reply (on top of the network's latency).
    pub reply_delay: Micros,
    /// If set, replies bypass the network fault model and take exactly this long.
    pub exact_reply_latency: Option<Micros>,
    pub keep_served: bool,
    /// Do not list nodes that are silent at the moment.
    pub omit_silent: bool,
    /// Names appended to every node list (ghosts, the querier's own id, router addresses...).
    pub extra_names: Vec<(Id, SocketAddr)>,
    /// Probability (per reply) that a responder appends adversarial entries built around the
    /// queried target: one id under two addresses, the id farthest from the target (its bitwise
    /// complement) and its neighbours, the target itself, all-zero / all-one ids. The addresses
    /// belong to nobody. 0 = honest lists.
    pub hostile_lists: f64,
    /// Names appended to the node lists of get_peers replies only (never to find_node replies): nodes
    /// a querier first hears of in the middle of a search.
    pub search_only_names: Vec<(Id, SocketAddr)>,
    /// Probability (per get_peers reply) that the token handed out is very long: padded to
    /// 900..1440 bytes, with the node list cut so that the reply itself still fits 1500 bytes.
    /// BEP5 puts no bound on the token length; whoever received it has to send it back.
    pub long_tokens: f64,
}

/// Adversarial node-list entries around `target` (see `World::hostile_lists`); `salt` varies them.
pub fn hostile_entries(target: &Id, salt: u32, v6: bool) -> Vec<(Id, SocketAddr)> {
    let ghost = |n: u32| -> SocketAddr {
        let n = salt.wrapping_mul(8).wrapping_add(n);
        if v6 {
            crate::simnet::v6(0x99, n as u64 + 1, 9000 + (n % 500) as u16)
        } else {
            crate::simnet::v4(99, (n >> 16) as u8, (n >> 8) as u8, n as u8, 9000 + (n % 500) as u16)
        }
    };
    let mut far = *target;
    for b in far.iter_mut() {
        *b = !*b;
    }
    let mut far2 = far;
    far2[19] ^= 1;
    let mut near = *target;
    near[19] ^= (salt % 7) as u8;
    let mut out = Vec::new();
    match salt % 7 {
        6 => {
            // one address under two (neighbouring) ids: a peer that re-joined under a new id
            out.push((far, ghost(0)));
            out.push((far2, ghost(0)));
            out.push((near, ghost(1)));
            let mut near2 = near;
            near2[18] ^= 0x40;
            out.push((near2, ghost(1)));
        }
        0 => {
            out.push((far, ghost(0)));
            out.push((far, ghost(1)));
        }
        1 => {
            out.push((far2, ghost(0)));
            out.push((far, ghost(1)));
            out.push((far, ghost(2)));
            out.push((far2, ghost(3)));
        }
        2 => {
            out.push((*target, ghost(0)));
            out.push((*target, ghost(1)));
        }
        3 => {
            out.push(([0u8; 20], ghost(0)));
            out.push(([0xffu8; 20], ghost(1)));
            out.push(([0u8; 20], ghost(2)));
        }
        4 => {
            out.push((near, ghost(0)));
            out.push((near, ghost(1)));
            out.push((far, ghost(2)));
        }
        _ => {
            for k in 0..6 {
                out.push((far, ghost(k)));
            }
        }
    }
    out
}

/// Tagged peer address: identifies (reply sequence number, index within the reply).
pub fn tagged_value(seq: u32, j: usize, v6: bool) -> SocketAddr {
    let port = (j as u16).wrapping_add(1);
    if v6 {
        let ip = Ipv6Addr::new(0xfdff, 0, 0, 0, 0, 0, (seq >> 16) as u16, seq as u16);
        SocketAddr::new(IpAddr::V6(ip), port)
    } else {
        let ip = Ipv4Addr::new(240, (seq >> 16) as u8, (seq >> 8) as u8, seq as u8);
        SocketAddr::new(IpAddr::V4(ip), port)
    }
}

/// Inverse of `tagged_value`.
pub fn untag(addr: &SocketAddr) -> Option<(u32, usize)> {
    let j = (addr.port() as usize).checked_sub(1)?;
    match addr.ip() {
        IpAddr::V4(ip) => {
            let o = ip.octets();
            if o[0] != 240 {
                return None;
            }
            Some(((o[1] as u32) << 16 | (o[2] as u32) << 8 | o[3] as u32, j))
        }
        IpAddr::V6(ip) => {
            let s = ip.segments();
            if s[0] != 0xfdff {
                return None;
            }
            Some(((s[6] as u32) << 16 | s[7] as u32, j))
        }
    }
}

pub fn token_for(seq: u32) -> Vec<u8> {
    let mut t = b"TK".to_vec();
    t.extend_from_slice(&seq.to_be_bytes());
    t
}

impl World {
    pub fn new(nodes: Vec<WNode>) -> World {
        let index = nodes.iter().enumerate().map(|(i, n)| (n.addr, i)).collect();
        World {
            nodes,
            index,
            served: Vec::new(),
            seq: 0,
            k: 8,
            include_self: false,
            stable_values: false,
            repeat_values: false,
            reply_delay: 0,
            exact_reply_latency: None,
            keep_served: true,
            omit_silent: false,
            extra_names: Vec::new(),
            hostile_lists: 0.0,
            search_only_names: Vec::new(),
            long_tokens: 0.0,
        }
    }

    pub fn owns(&self, addr: &SocketAddr) -> bool {
        self.index.contains_key(addr)
    }

    /// Indices of the `k` nodes closest to `target` (optionally excluding one node).
    pub fn closest(&self, target: &Id, k: usize, exclude: Option<usize>, v6: bool) -> Vec<usize> {
        self.closest_at(target, k, exclude, v6, None)
    }

    /// Like `closest`; with `now` given and `omit_silent` set, nodes silent at `now` are left out.
    pub fn closest_at(&self, target: &Id, k: usize, exclude: Option<usize>, v6: bool, now: Option<Micros>) -> Vec<usize> {
        let mut all: Vec<(Id, usize)> = self
            .nodes
            .iter()
            .enumerate()
            .filter(|(i, n)| Some(*i) != exclude && n.addr.is_ipv6() == v6)
            .filter(|(_, n)| !(self.omit_silent && now.map(|t| n.is_silent(t)).unwrap_or(false)))
            .map(|(i, n)| (xor(&n.id, target), i))
            .collect();
        if all.len() > k {
            all.select_nth_unstable(k - 1);
            all.truncate(k);
        }
        all.sort();
        all.into_iter().map(|(_, i)| i).collect()
    }

    fn answer(&mut self, net: &Net, at: SocketAddr, src: SocketAddr, msg: &Krpc) {
        let Some(&ni) = self.index.get(&at) else {
            return;
        };
        let now = net.now();
        let Body::Query { id: querier_id, q } = &msg.body else {
            return;
        };
        let node = self.nodes[ni].clone();
        let mut served = Served {
            t: now,
            node: ni,
            from: src,
            tid: msg.t.clone(),
            method: msg.method().unwrap_or("?"),
            target: None,
            seq: None,
            reply_wire_id: None,
            values: Vec::new(),
            token: None,
            nodes: Vec::new(),
            announce: None,
            querier_id: *querier_id,
        };
        if node.is_silent(now) {
            if self.keep_served {
                self.served.push(served);
            }
            return;
        }
        let v6 = at.is_ipv6();
        let seq = self.seq;
        self.seq += 1;
        served.seq = Some(seq);

        let bytes = match node.mode {
            Mode::Errors => Krpc::error(&msg.t, 201, "scripted error").encode(),
            Mode::Garbage => b"d1:t2:zz1:y1:r2:zze".to_vec(),
            Mode::Normal => {
                let mut reply = Reply {
                    id: node.id,
                    ..Default::default()
                };
                let list = |w: &World, target: &Id| -> Vec<(Id, SocketAddr)> {
                    w.closest_at(target, w.k, if w.include_self { None } else { Some(ni) }, v6, Some(now))
                        .into_iter()
                        .map(|i| (w.nodes[i].id, w.nodes[i].addr))
                        .chain(w.extra_names.iter().filter(|(_, a)| a.is_ipv6() == v6).copied())
                        .chain(
                            // cheap deterministic coin from the reply sequence number
                            if w.hostile_lists > 0.0 && ((seq.wrapping_mul(2654435761) >> 8) % 1000) as f64 / 1000.0 < w.hostile_lists {
                                hostile_entries(target, seq, v6)
                            } else {
                                Vec::new()
                            },
                        )
                        .collect()
                };
                match q {
                    Query::Ping => {}
                    Query::FindNode { target, .. } => {
                        served.target = Some(*target);
                        let nodes = list(self, target);
                        served.nodes = nodes.clone();
                        if v6 {
                            reply.nodes6 = nodes;
                        } else {
                            reply.nodes = nodes;
                        }
                    }
                    Query::GetPeers { info_hash, .. } => {
                        served.target = Some(*info_hash);
                        let mut nodes = list(self, info_hash);
                        nodes.extend(self.search_only_names.iter().filter(|(_, a)| a.is_ipv6() == v6).copied());
                        served.nodes = nodes.clone();
                        if v6 {
                            reply.nodes6 = nodes;
                        } else {
                            reply.nodes = nodes;
                        }
                        let mut token = token_for(seq);
                        if self.long_tokens > 0.0 && ((seq.wrapping_mul(40503) >> 4) % 1000) as f64 / 1000.0 < self.long_tokens {
                            let len = 900 + (seq.wrapping_mul(7919) % 541) as usize;
                            while token.len() < len {
                                token.push(b'T');
                            }
                            // keep the reply itself within one datagram
                            let room = 1500usize.saturating_sub(len + 120 + msg.t.len());
                            let per = if v6 { 38 } else { 26 };
                            reply.nodes.truncate(room / per);
                            reply.nodes6.truncate(room / per);
                            served.nodes.truncate(room / per);
                        }
                        reply.token = Some(token.clone());
                        served.token = Some(token);
                        let n_values = if reply.token.as_ref().map(|t| t.len()).unwrap_or(0) > 800 { 0 } else { node.peers };
                        for j in 0..n_values {
                            let value = if self.stable_values {
                                tagged_value(0x80_0000 | ni as u32, j, v6)
                            } else {
                                tagged_value(seq, j, v6)
                            };
                            reply.values.push(value);
                            if self.repeat_values && (seq as usize + j as usize) % 3 == 0 {
                                reply.values.push(value);
                            }
                        }
                        if self.repeat_values && seq % 2 == 0 && reply.values.len() >= 2 {
                            let first = reply.values[0];
                            reply.values.push(first);
                        }
                        served.values = reply.values.clone();
                    }
                    Query::AnnouncePeer {
                        info_hash,
                        port,
                        token,
                    } => {
                        served.target = Some(*info_hash);
                        served.announce = Some((*info_hash, *port, token.clone()));
                    }
                }
                Krpc::reply(&msg.t, reply).encode()
            }
        };
        let wire_id = match self.exact_reply_latency {
            Some(lat) => net.send_from_after(at, src, bytes, lat + self.reply_delay),
            None if self.reply_delay > 0 => {
                // network latency is unknown here; approximate by delaying the send itself
                let net2 = net.clone();
                let delay = self.reply_delay;
                tokio::spawn(async move {
                    tokio::time::sleep(Duration::from_micros(delay)).await;
                    net2.send_from(at, src, bytes);
                });
                u64::MAX
            }
            None => net.send_from(at, src, bytes),
        };
        served.reply_wire_id = Some(wire_id);
        if self.keep_served {
            self.served.push(served);
        }
    }
}

impl Actor for World {
    fn on_datagram(&mut self, net: &Net, at: SocketAddr, src: SocketAddr, data: &[u8]) {
        if let Ok(msg) = Krpc::parse(data) {
            if msg.is_query() {
                self.answer(net, at, src, &msg);
            }
        }
    }
}

// ---------------------------------------------------------------------------------------------
// real nodes

#[derive(Clone, Debug)]
pub struct NodeCfg {
    pub addr: SocketAddr,
    pub id: Option<Id>,
    pub read_only: bool,
    pub announce_port: Option<u16>,
    pub nodes: Vec<SocketAddr>,
    pub routers: Vec<String>,
}

impl NodeCfg {
    pub fn new(addr: SocketAddr) -> NodeCfg {
        NodeCfg {
            addr,
            id: None,
            read_only: false,
            announce_port: None,
            nodes: Vec::new(),
            routers: Vec::new(),
        }
    }
}

pub fn spawn_node(net: &Net, cfg: &NodeCfg) -> MainlineDht {
    let mut b = MainlineDht::builder().set_read_only(cfg.read_only);
    if let Some(id) = cfg.id {
        b = b.set_node_id(InfoHash::from(id));
    }
    if let Some(p) = cfg.announce_port {
        b = b.set_announce_port(p);
    }
    for n in &cfg.nodes {
        b = b.add_node(*n);
    }
    for r in &cfg.routers {
        b = b.add_router(r.clone());
    }
    b.start(net.socket(cfg.addr)).expect("start node")
}

#[derive(Clone, Debug, Default)]
pub struct SearchResult {
    pub started: Micros,
    pub items: Vec<(Micros, SocketAddr)>,
    /// When the stream returned None; `None` if it was still open at the deadline.
    pub ended: Option<Micros>,
}

/// Run a search to the end of its stream (or until `limit` of virtual time has passed).
pub async fn run_search(
    net: &Net,
    dht: &MainlineDht,
    info_hash: Id,
    announce: bool,
    limit: Duration,
) -> SearchResult {
    let started = net.now();
    let mut stream = dht.search(InfoHash::from(info_hash), announce);
    let mut result = SearchResult {
        started,
        ..Default::default()
    };
    let deadline = tokio::time::Instant::now() + limit;
    loop {
        match tokio::time::timeout_at(deadline, stream.next()).await {
            Ok(Some(addr)) => result.items.push((net.now(), addr)),
            Ok(None) => {
                result.ended = Some(net.now());
                break;
            }
            Err(_) => break,
        }
    }
    result
}

/// Await an API future with a virtual-time limit; `None` = did not complete.
pub async fn within<T>(limit: Duration, fut: impl std::future::Future<Output = T>) -> Option<T> {
    tokio::time::timeout(limit, fut).await.ok()
}

// ---------------------------------------------------------------------------------------------
// API hammer: bursts of cheap API calls issued in the very scheduler instant in which a datagram
// reaches the node (and the instants right after it, separated by `yield_now`), so that commands
// race with whatever the delivery triggers inside the node: the bootstrap worker publishing a new
// state, the handler starting or finishing a search, a refresh round. Real callers on other
// threads produce exactly these interleavings; under the single-threaded virtual-time runtime they
// have to be produced on purpose.

#[derive(Default)]
pub struct HammerStats {
    pub bursts: u64,
    pub calls: u64,
    /// Calls that did not complete within 2 virtual seconds or reported a dead node: (time, what).
    pub failed: Vec<(Micros, String)>,
    /// Virtual instants at which calls were issued (to measure how often a call shared its instant
    /// with an internal event of the node, e.g. a bootstrap state change).
    pub instants: std::collections::HashSet<Micros>,
}

pub fn api_hammer(net: &Net, dht: &MainlineDht, addr: SocketAddr, seed: u64, p: f64, max_bursts: u64) -> Arc<Mutex<HammerStats>> {
    use rand::{Rng, SeedableRng};
    let stats: Arc<Mutex<HammerStats>> = Default::default();
    let (net2, dht2, stats2) = (net.clone(), dht.clone(), stats.clone());
    let mut rng = rand_chacha::ChaCha8Rng::seed_from_u64(seed ^ 0x4a11_e7);
    let mut left = max_bursts;
    net.add_observer(addr, move |_w| {
        if left == 0 || !rng.gen_bool(p) {
            return;
        }
        left -= 1;
        stats2.lock().unwrap().bursts += 1;
        // 1..3 concurrent callers; each call is followed by a yield or not (tokio defers a yielding
        // task until the run queue has drained, a non-yielding caller re-issues at once: the two
        // interleave differently with the node's own tasks)
        for _caller in 0..rng.gen_range(1..=3) {
        let rounds = rng.gen_range(2..=8);
        let pre_yields = rng.gen_range(0..3);
        let kinds: Vec<(u8, bool)> = (0..rounds).map(|_| (rng.gen_range(0..4), rng.gen_bool(0.5))).collect();
        let (net3, dht3, stats3) = (net2.clone(), dht2.clone(), stats2.clone());
        tokio::spawn(async move {
            for _ in 0..pre_yields {
                tokio::task::yield_now().await;
            }
            let lim = Duration::from_secs(2);
            for (k, yield_after) in kinds {
                let bad = match k {
                    0 | 1 => match within(lim, dht3.get_state()).await {
                        Some(Some(s)) if s.is_running => None,
                        other => Some(format!("get_state() = {:?}", other.map(|s| s.map(|s| s.is_running)))),
                    },
                    2 => match within(lim, dht3.load_contacts()).await {
                        Some(Ok(_)) => None,
                        Some(Err(_)) => Some("load_contacts() failed".to_owned()),
                        None => Some("load_contacts() pending".to_owned()),
                    },
                    _ => match within(lim, dht3.local_addr()).await {
                        Some(Ok(_)) => None,
                        Some(Err(_)) => Some("local_addr() failed".to_owned()),
                        None => Some("local_addr() pending".to_owned()),
                    },
                };
                {
                    let mut st = stats3.lock().unwrap();
                    st.calls += 1;
                    let now = net3.now();
                    st.instants.insert(now);
                    if let Some(b) = bad {
                        st.failed.push((net3.now(), b));
                    }
                }
                if yield_after {
                    tokio::task::yield_now().await;
                }
            }
        });
        }
    });
    stats
}
