pub mod bed;
pub mod checks;
pub mod contacts;
pub mod conv;
pub mod gen;
pub mod hostile;
pub mod json;
pub mod meter;
pub mod refcodec;
pub mod runner;
pub mod searchbed;
pub mod searchmon;
pub mod simnet;
pub mod supervise;
pub mod tabledrv;
pub mod verdict;
pub mod wiremon;
pub mod world;

#[global_allocator]
static GLOBAL: meter::Meter = meter::Meter;
