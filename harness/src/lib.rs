pub mod checks;
pub mod json;
pub mod refcodec;
pub mod runner;
pub mod simnet;
pub mod verdict;
