//! Independent bencode + KRPC codec, written from BEP 3 / 5 / 32. Never calls btdht's codec.
//!
//! It is the reference model for the codec property, the generator of foreign / hostile
//! encodings, and the parser used by every wire monitor.

use std::net::{IpAddr, Ipv4Addr, Ipv6Addr, SocketAddr};

pub type Id = [u8; 20];

#[derive(Clone, Debug, PartialEq, Eq)]
pub enum B {
    Int(i64),
    Bytes(Vec<u8>),
    List(Vec<B>),
    /// Key order is kept as given (so that non-canonical encodings can be produced);
    /// `canonical()` sorts.
    Dict(Vec<(Vec<u8>, B)>),
    /// Bytes emitted verbatim (never produced by the decoder; used to build malformed input).
    Raw(Vec<u8>),
}

impl B {
    pub fn bytes(b: impl AsRef<[u8]>) -> B {
        B::Bytes(b.as_ref().to_vec())
    }

    pub fn dict() -> B {
        B::Dict(Vec::new())
    }

    pub fn put(mut self, key: &str, value: B) -> B {
        if let B::Dict(items) = &mut self {
            items.push((key.as_bytes().to_vec(), value));
        }
        self
    }

    pub fn get(&self, key: &str) -> Option<&B> {
        match self {
            B::Dict(items) => items
                .iter()
                .find(|(k, _)| k.as_slice() == key.as_bytes())
                .map(|(_, v)| v),
            _ => None,
        }
    }

    pub fn get_mut(&mut self, key: &str) -> Option<&mut B> {
        match self {
            B::Dict(items) => items
                .iter_mut()
                .find(|(k, _)| k.as_slice() == key.as_bytes())
                .map(|(_, v)| v),
            _ => None,
        }
    }

    pub fn as_bytes(&self) -> Option<&[u8]> {
        match self {
            B::Bytes(b) => Some(b),
            _ => None,
        }
    }

    pub fn as_int(&self) -> Option<i64> {
        match self {
            B::Int(i) => Some(*i),
            _ => None,
        }
    }

    pub fn as_list(&self) -> Option<&[B]> {
        match self {
            B::List(l) => Some(l),
            _ => None,
        }
    }

    pub fn as_dict(&self) -> Option<&[(Vec<u8>, B)]> {
        match self {
            B::Dict(d) => Some(d),
            _ => None,
        }
    }

    /// Sort dictionary keys (raw byte order) at every level.
    pub fn canonical(&self) -> B {
        match self {
            B::List(l) => B::List(l.iter().map(B::canonical).collect()),
            B::Dict(d) => {
                let mut d: Vec<_> = d.iter().map(|(k, v)| (k.clone(), v.canonical())).collect();
                d.sort_by(|a, b| a.0.cmp(&b.0));
                B::Dict(d)
            }
            other => other.clone(),
        }
    }

    /// Encode, keeping dictionary keys in the order they are stored.
    pub fn encode(&self) -> Vec<u8> {
        let mut out = Vec::new();
        self.encode_into(&mut out);
        out
    }

    pub fn encode_into(&self, out: &mut Vec<u8>) {
        match self {
            B::Int(i) => {
                out.push(b'i');
                out.extend_from_slice(i.to_string().as_bytes());
                out.push(b'e');
            }
            B::Bytes(b) => {
                out.extend_from_slice(b.len().to_string().as_bytes());
                out.push(b':');
                out.extend_from_slice(b);
            }
            B::Raw(r) => out.extend_from_slice(r),
            B::List(l) => {
                out.push(b'l');
                for item in l {
                    item.encode_into(out);
                }
                out.push(b'e');
            }
            B::Dict(d) => {
                out.push(b'd');
                for (k, v) in d {
                    out.extend_from_slice(k.len().to_string().as_bytes());
                    out.push(b':');
                    out.extend_from_slice(k);
                    v.encode_into(out);
                }
                out.push(b'e');
            }
        }
    }
}

/// Tolerant decoder: accepts unsorted keys. Returns the value and the number of bytes consumed.
pub fn decode_prefix(input: &[u8]) -> Result<(B, usize), String> {
    let mut pos = 0;
    let v = decode_at(input, &mut pos, 0)?;
    Ok((v, pos))
}

/// Decode one value that must span the whole input.
pub fn decode(input: &[u8]) -> Result<B, String> {
    let (v, used) = decode_prefix(input)?;
    if used != input.len() {
        return Err(format!("trailing bytes: {} of {}", used, input.len()));
    }
    Ok(v)
}

fn decode_at(input: &[u8], pos: &mut usize, depth: usize) -> Result<B, String> {
    if depth > 64 {
        return Err("too deep".into());
    }
    let c = *input.get(*pos).ok_or("eof")?;
    match c {
        b'i' => {
            *pos += 1;
            let end = input[*pos..]
                .iter()
                .position(|b| *b == b'e')
                .ok_or("unterminated int")?;
            let s = std::str::from_utf8(&input[*pos..*pos + end]).map_err(|_| "int utf8")?;
            let v: i64 = s.parse().map_err(|_| format!("bad int {s:?}"))?;
            *pos += end + 1;
            Ok(B::Int(v))
        }
        b'0'..=b'9' => {
            let colon = input[*pos..]
                .iter()
                .position(|b| *b == b':')
                .ok_or("no colon")?;
            let s = std::str::from_utf8(&input[*pos..*pos + colon]).map_err(|_| "len utf8")?;
            let len: usize = s.parse().map_err(|_| format!("bad len {s:?}"))?;
            *pos += colon + 1;
            if len > input.len() - *pos {
                return Err("string past end".into());
            }
            let b = input[*pos..*pos + len].to_vec();
            *pos += len;
            Ok(B::Bytes(b))
        }
        b'l' => {
            *pos += 1;
            let mut items = Vec::new();
            loop {
                match input.get(*pos) {
                    Some(b'e') => {
                        *pos += 1;
                        return Ok(B::List(items));
                    }
                    Some(_) => items.push(decode_at(input, pos, depth + 1)?),
                    None => return Err("eof in list".into()),
                }
            }
        }
        b'd' => {
            *pos += 1;
            let mut items = Vec::new();
            loop {
                match input.get(*pos) {
                    Some(b'e') => {
                        *pos += 1;
                        return Ok(B::Dict(items));
                    }
                    Some(_) => {
                        let k = match decode_at(input, pos, depth + 1)? {
                            B::Bytes(k) => k,
                            _ => return Err("non-string key".into()),
                        };
                        let v = decode_at(input, pos, depth + 1)?;
                        items.push((k, v));
                    }
                    None => return Err("eof in dict".into()),
                }
            }
        }
        other => Err(format!("unexpected byte {other:#x} at {}", *pos)),
    }
}

// ---------------------------------------------------------------------------------------------
// Compact encodings (BEP 5 / BEP 32)

pub fn compact_addr(addr: &SocketAddr) -> Vec<u8> {
    let mut out = match addr.ip() {
        IpAddr::V4(ip) => ip.octets().to_vec(),
        IpAddr::V6(ip) => ip.octets().to_vec(),
    };
    out.push((addr.port() >> 8) as u8);
    out.push((addr.port() & 0xff) as u8);
    out
}

pub fn parse_compact_addr(b: &[u8]) -> Option<SocketAddr> {
    match b.len() {
        6 => {
            let ip = Ipv4Addr::new(b[0], b[1], b[2], b[3]);
            Some(SocketAddr::new(ip.into(), (b[4] as u16) << 8 | b[5] as u16))
        }
        18 => {
            let mut o = [0u8; 16];
            o.copy_from_slice(&b[..16]);
            Some(SocketAddr::new(
                Ipv6Addr::from(o).into(),
                (b[16] as u16) << 8 | b[17] as u16,
            ))
        }
        _ => None,
    }
}

pub fn compact_nodes(nodes: &[(Id, SocketAddr)]) -> Vec<u8> {
    let mut out = Vec::new();
    for (id, addr) in nodes {
        out.extend_from_slice(id);
        out.extend_from_slice(&compact_addr(addr));
    }
    out
}

/// Parse a compact node list of the given per-entry address length (6 or 18).
pub fn parse_compact_nodes(b: &[u8], addr_len: usize) -> Option<Vec<(Id, SocketAddr)>> {
    let entry = 20 + addr_len;
    if b.len() % entry != 0 {
        return None;
    }
    let mut out = Vec::new();
    for chunk in b.chunks(entry) {
        let mut id = [0u8; 20];
        id.copy_from_slice(&chunk[..20]);
        out.push((id, parse_compact_addr(&chunk[20..])?));
    }
    Some(out)
}

// ---------------------------------------------------------------------------------------------
// KRPC messages

#[derive(Clone, Copy, Debug, PartialEq, Eq, Hash)]
pub enum Want {
    N4,
    N6,
    Both,
}

#[derive(Clone, Debug, PartialEq, Eq)]
pub enum Query {
    Ping,
    FindNode {
        target: Id,
        want: Option<Want>,
    },
    GetPeers {
        info_hash: Id,
        want: Option<Want>,
    },
    AnnouncePeer {
        info_hash: Id,
        /// `None` = implied port (encoded as port 0 + implied_port 1).
        port: Option<u16>,
        token: Vec<u8>,
    },
}

#[derive(Clone, Debug, PartialEq, Eq, Default)]
pub struct Reply {
    pub id: Id,
    pub token: Option<Vec<u8>>,
    pub values: Vec<SocketAddr>,
    pub nodes: Vec<(Id, SocketAddr)>,
    pub nodes6: Vec<(Id, SocketAddr)>,
}

#[derive(Clone, Debug, PartialEq, Eq)]
pub enum Body {
    Query { id: Id, q: Query },
    Reply(Reply),
    Error { code: i64, msg: String },
}

#[derive(Clone, Debug, PartialEq, Eq)]
pub struct Krpc {
    pub t: Vec<u8>,
    pub body: Body,
}

fn want_value(w: Want) -> B {
    match w {
        Want::N4 => B::List(vec![B::bytes("n4")]),
        Want::N6 => B::List(vec![B::bytes("n6")]),
        Want::Both => B::List(vec![B::bytes("n4"), B::bytes("n6")]),
    }
}

impl Krpc {
    pub fn query(t: impl AsRef<[u8]>, id: Id, q: Query) -> Krpc {
        Krpc {
            t: t.as_ref().to_vec(),
            body: Body::Query { id, q },
        }
    }

    pub fn reply(t: impl AsRef<[u8]>, r: Reply) -> Krpc {
        Krpc {
            t: t.as_ref().to_vec(),
            body: Body::Reply(r),
        }
    }

    pub fn error(t: impl AsRef<[u8]>, code: i64, msg: &str) -> Krpc {
        Krpc {
            t: t.as_ref().to_vec(),
            body: Body::Error {
                code,
                msg: msg.to_owned(),
            },
        }
    }

    /// The bencode tree of this message as prescribed by BEP 5 / 32 (keys in canonical order).
    pub fn to_value(&self) -> B {
        let mut top = B::dict();
        match &self.body {
            Body::Query { id, q } => {
                let mut a = B::dict().put("id", B::bytes(id));
                let name = match q {
                    Query::Ping => "ping",
                    Query::FindNode { target, want } => {
                        a = a.put("target", B::bytes(target));
                        if let Some(w) = want {
                            a = a.put("want", want_value(*w));
                        }
                        "find_node"
                    }
                    Query::GetPeers { info_hash, want } => {
                        a = a.put("info_hash", B::bytes(info_hash));
                        if let Some(w) = want {
                            a = a.put("want", want_value(*w));
                        }
                        "get_peers"
                    }
                    Query::AnnouncePeer {
                        info_hash,
                        port,
                        token,
                    } => {
                        if port.is_none() {
                            a = a.put("implied_port", B::Int(1));
                        }
                        a = a.put("info_hash", B::bytes(info_hash));
                        a = a.put("port", B::Int(port.unwrap_or(0) as i64));
                        a = a.put("token", B::bytes(token));
                        "announce_peer"
                    }
                };
                top = top
                    .put("a", a)
                    .put("q", B::bytes(name))
                    .put("t", B::bytes(&self.t))
                    .put("y", B::bytes("q"));
            }
            Body::Reply(r) => {
                let mut d = B::dict().put("id", B::bytes(r.id));
                if !r.nodes.is_empty() {
                    d = d.put("nodes", B::Bytes(compact_nodes(&r.nodes)));
                }
                if !r.nodes6.is_empty() {
                    d = d.put("nodes6", B::Bytes(compact_nodes(&r.nodes6)));
                }
                if let Some(t) = &r.token {
                    d = d.put("token", B::bytes(t));
                }
                if !r.values.is_empty() {
                    d = d.put(
                        "values",
                        B::List(r.values.iter().map(|a| B::Bytes(compact_addr(a))).collect()),
                    );
                }
                top = top
                    .put("r", d)
                    .put("t", B::bytes(&self.t))
                    .put("y", B::bytes("r"));
            }
            Body::Error { code, msg } => {
                top = top
                    .put("e", B::List(vec![B::Int(*code), B::bytes(msg.as_bytes())]))
                    .put("t", B::bytes(&self.t))
                    .put("y", B::bytes("e"));
            }
        }
        top.canonical()
    }

    pub fn encode(&self) -> Vec<u8> {
        self.to_value().encode()
    }

    /// Parse a datagram. Lenient about unknown keys and key order; strict about the fields it
    /// reads. Used by the wire monitors (not as the reference for acceptance decisions).
    pub fn parse(bytes: &[u8]) -> Result<Krpc, String> {
        let v = decode(bytes)?;
        Krpc::from_value(&v)
    }

    pub fn from_value(v: &B) -> Result<Krpc, String> {
        let t = v.get("t").and_then(B::as_bytes).ok_or("no t")?.to_vec();
        let y = v.get("y").and_then(B::as_bytes).ok_or("no y")?;
        let id20 = |b: Option<&B>| -> Result<Id, String> {
            let b = b.and_then(B::as_bytes).ok_or("missing 20-byte string")?;
            if b.len() != 20 {
                return Err(format!("id of {} bytes", b.len()));
            }
            let mut id = [0u8; 20];
            id.copy_from_slice(b);
            Ok(id)
        };
        let body = match y {
            b"q" => {
                let q = v.get("q").and_then(B::as_bytes).ok_or("no q")?;
                let a = v.get("a").ok_or("no a")?;
                let id = id20(a.get("id"))?;
                let want = match a.get("want") {
                    None => None,
                    Some(w) => {
                        let mut n4 = false;
                        let mut n6 = false;
                        for item in w.as_list().ok_or("want not list")? {
                            match item.as_bytes() {
                                Some(b"n4") => n4 = true,
                                Some(b"n6") => n6 = true,
                                _ => {}
                            }
                        }
                        match (n4, n6) {
                            (true, true) => Some(Want::Both),
                            (true, false) => Some(Want::N4),
                            (false, true) => Some(Want::N6),
                            _ => None,
                        }
                    }
                };
                let q = match q {
                    b"ping" => Query::Ping,
                    b"find_node" => Query::FindNode {
                        target: id20(a.get("target"))?,
                        want,
                    },
                    b"get_peers" => Query::GetPeers {
                        info_hash: id20(a.get("info_hash"))?,
                        want,
                    },
                    b"announce_peer" => {
                        let implied = a.get("implied_port").and_then(B::as_int).unwrap_or(0) != 0;
                        let port = a.get("port").and_then(B::as_int);
                        Query::AnnouncePeer {
                            info_hash: id20(a.get("info_hash"))?,
                            port: if implied {
                                None
                            } else {
                                Some(port.ok_or("no port")? as u16)
                            },
                            token: a
                                .get("token")
                                .and_then(B::as_bytes)
                                .ok_or("no token")?
                                .to_vec(),
                        }
                    }
                    other => return Err(format!("unknown method {:?}", String::from_utf8_lossy(other))),
                };
                Body::Query { id, q }
            }
            b"r" => {
                let r = v.get("r").ok_or("no r")?;
                let mut reply = Reply {
                    id: id20(r.get("id"))?,
                    ..Default::default()
                };
                if let Some(t) = r.get("token") {
                    reply.token = Some(t.as_bytes().ok_or("token not bytes")?.to_vec());
                }
                if let Some(n) = r.get("nodes") {
                    reply.nodes = parse_compact_nodes(n.as_bytes().ok_or("nodes not bytes")?, 6)
                        .ok_or("bad nodes")?;
                }
                if let Some(n) = r.get("nodes6") {
                    reply.nodes6 = parse_compact_nodes(n.as_bytes().ok_or("nodes6 not bytes")?, 18)
                        .ok_or("bad nodes6")?;
                }
                if let Some(vals) = r.get("values") {
                    for item in vals.as_list().ok_or("values not list")? {
                        reply.values.push(
                            parse_compact_addr(item.as_bytes().ok_or("value not bytes")?)
                                .ok_or("bad value")?,
                        );
                    }
                }
                Body::Reply(reply)
            }
            b"e" => {
                let e = v.get("e").and_then(B::as_list).ok_or("no e")?;
                let code = e.first().and_then(B::as_int).ok_or("no code")?;
                let msg = e.get(1).and_then(B::as_bytes).ok_or("no msg")?;
                Body::Error {
                    code,
                    msg: String::from_utf8_lossy(msg).into_owned(),
                }
            }
            other => return Err(format!("unknown y {:?}", String::from_utf8_lossy(other))),
        };
        Ok(Krpc { t, body })
    }

    pub fn is_query(&self) -> bool {
        matches!(self.body, Body::Query { .. })
    }

    pub fn as_reply(&self) -> Option<&Reply> {
        match &self.body {
            Body::Reply(r) => Some(r),
            _ => None,
        }
    }

    pub fn method(&self) -> Option<&'static str> {
        match &self.body {
            Body::Query { q, .. } => Some(match q {
                Query::Ping => "ping",
                Query::FindNode { .. } => "find_node",
                Query::GetPeers { .. } => "get_peers",
                Query::AnnouncePeer { .. } => "announce_peer",
            }),
            _ => None,
        }
    }
}

// ---------------------------------------------------------------------------------------------
// id helpers

pub fn xor(a: &Id, b: &Id) -> Id {
    let mut out = [0u8; 20];
    for i in 0..20 {
        out[i] = a[i] ^ b[i];
    }
    out
}

/// Length of the common bit prefix (0..=160).
pub fn lcp(a: &Id, b: &Id) -> usize {
    let x = xor(a, b);
    let mut bits = 0;
    for byte in x {
        if byte == 0 {
            bits += 8;
        } else {
            bits += byte.leading_zeros() as usize;
            break;
        }
    }
    bits
}

pub fn flip_bit(id: &Id, bit: usize) -> Id {
    let mut out = *id;
    out[bit / 8] ^= 0x80 >> (bit % 8);
    out
}

#[cfg(test)]
mod tests {
    use super::*;

    #[test]
    fn bep5_examples() {
        let id = *b"abcdefghij0123456789";
        let m = Krpc::query("aa", id, Query::Ping);
        assert_eq!(
            m.encode(),
            b"d1:ad2:id20:abcdefghij0123456789e1:q4:ping1:t2:aa1:y1:qe".to_vec()
        );
        let m = Krpc::query(
            "aa",
            id,
            Query::FindNode {
                target: *b"mnopqrstuvwxyz123456",
                want: None,
            },
        );
        assert_eq!(
            m.encode(),
            b"d1:ad2:id20:abcdefghij01234567896:target20:mnopqrstuvwxyz123456e1:q9:find_node1:t2:aa1:y1:qe".to_vec()
        );
        let m = Krpc::query(
            "aa",
            id,
            Query::AnnouncePeer {
                info_hash: *b"mnopqrstuvwxyz123456",
                port: Some(6881),
                token: b"aoeusnth".to_vec(),
            },
        );
        assert_eq!(
            m.encode(),
            b"d1:ad2:id20:abcdefghij01234567899:info_hash20:mnopqrstuvwxyz1234564:porti6881e5:token8:aoeusnthe1:q13:announce_peer1:t2:aa1:y1:qe".to_vec()
        );
        let m = Krpc::error("aa", 201, "A Generic Error Ocurred");
        assert_eq!(
            m.encode(),
            b"d1:eli201e23:A Generic Error Ocurrede1:t2:aa1:y1:ee".to_vec()
        );
        for m in [
            Krpc::query("aa", id, Query::Ping),
            Krpc::error("aa", 201, "x"),
        ] {
            assert_eq!(Krpc::parse(&m.encode()).unwrap(), m);
        }
    }
}
