//! C14 under libFuzzer + AddressSanitizer: any byte string of up to 1500 bytes is decoded; a panic,
//! abort, stack overflow, ASan report or an allocation beyond -malloc_limit_mb ends the run with a
//! crash artefact (the witness). Coverage guidance reaches decoder paths a generator may not.
#![no_main]
use libfuzzer_sys::fuzz_target;

fuzz_target!(|data: &[u8]| {
    let data = if data.len() > 1500 { &data[..1500] } else { data };
    let _ = btdht::message::Message::decode(data);
});
