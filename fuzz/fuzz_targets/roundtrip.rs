//! C13 under libFuzzer: differential against the independent reference codec.
//!  * whatever btdht decodes is a well-formed message: it must encode, the encoding must be the
//!    reference codec's canonical encoding of the same message, and it must decode again to itself;
//!  * an input that IS the reference codec's canonical encoding of a well-formed KRPC message
//!    (within what btdht's types can express) must be decoded by btdht to exactly that message.
#![no_main]
use btdht::message::Message;
use btdht_verif::conv::{from_btdht, to_btdht};
use btdht_verif::refcodec::Krpc;
use libfuzzer_sys::fuzz_target;

fuzz_target!(|data: &[u8]| {
    let data = if data.len() > 1500 { &data[..1500] } else { data };
    let decoded = Message::decode(data);
    if let Ok(m) = &decoded {
        let enc = m.encode().expect("a decoded message must encode");
        let again = Message::decode(&enc).expect("an encoded message must decode");
        assert!(&again == m, "decode(encode(m)) != m");
        let reference = from_btdht(m).encode();
        assert!(enc == reference, "encoding differs from the reference codec's canonical encoding");
    }
    if let Ok(k) = Krpc::parse(data) {
        if k.encode() != data {
            return; // not the canonical encoding of a well-formed message
        }
        if let Some(want) = to_btdht(&k) {
            match &decoded {
                Ok(m) => assert!(*m == want, "btdht decodes a canonical well-formed message differently from the reference"),
                Err(e) => panic!("btdht rejects the canonical encoding of a well-formed message: {e:?}"),
            }
        }
    }
});
